"""C10 - results depend only on arguments and seed, not on global state or history (stateful)."""
import hashlib
import numpy as np
import hypothesis
from hypothesis import settings, HealthCheck, Phase, strategies as st
from hypothesis.stateful import RuleBasedStateMachine, rule, run_state_machine_as_test

import harness.core  # noqa: F401
from harness.core import Sub, OracleFailure
from harness import api_catalogue as ac

import teneva

LEVEL = "exploration"
RULE = ("Hypothesis rule-based state machine generates histories (up to 40 steps) over: np.random.seed(s), consuming the global stream, heap "
        "poisoning (allocate/free arrays of many sizes filled with garbage so that uninitialised allocations are visible), calls of any of the 98 "
        "catalogue entries with one of 6 argument presets and seed s in {0,1,42} given as int or as a fresh Generator(PCG64(s)), repeats of an "
        "earlier call, and calls of cross/als/als_func/cache_to_data with explicit vs default info/cache dictionaries. The whole history is "
        "executed by a pure function (also used for replay). Oracle: first-seen SHA-1 digest per (function, preset, seed, spelling) over all "
        "result arrays/scalars (+ final generator state, + objective call counts) must be reproduced bit-for-bit at every re-occurrence; the legacy "
        "global generator state is byte-identical before/after every library call. Non-trivial = a history in which the same key occurs at least "
        "twice with a state-changing step in between; distinct by SHA-1 of the history. Sub-check order_swap: for every catalogue entry two data "
        "sets x 4 (8) argument variants are run in the orders A..B.., B..A.., interleaved and descending, each history in a child forked from the same state, plus a history in which every call is made twice on fresh "
        "argument objects with the arrays of the first result overwritten in place in between: "
        "every call must give the same digest in all four (state kept between calls and keyed on part of the arguments shows up as order dependence). "
        "Sub-check file_history: the only seeded routine that reads a file, anova / ANOVA(fpath=...): the same model saved by two objects with drawn seeds and "
        "0..3 sample() / cores() draws behind them, and the model built in memory, must give bit-identical cores for the same int seed / leave an equal "
        "Generator in the same state; non-trivial there = noise > 0.")
TOLERANCES = "exact (SHA-1 of bytes)"
ASSUMPTIONS = ["single-threaded BLAS (OMP/OPENBLAS/MKL_NUM_THREADS=1) so that LAPACK results are bit-reproducible",
               "int and Generator spellings of the same seed are NOT required to agree (sample_tt and sample_square's retry re-seed from an int)",
               "timing entries (info['t']) are excluded from digests"]

SEEDS = [0, 1, 42]
NPRESET = 6


def dig_update(h, x, depth=0):
    if isinstance(x, np.ndarray):
        if x.dtype == object:
            for y in x.ravel():
                dig_update(h, y, depth + 1)
        else:
            h.update(str(x.shape).encode()); h.update(str(x.dtype).encode()); h.update(np.ascontiguousarray(x).tobytes())
    elif isinstance(x, (list, tuple)):
        h.update(b"[")
        for y in x:
            dig_update(h, y, depth + 1)
        h.update(b"]")
    elif isinstance(x, dict):
        for k in sorted(x, key=repr):
            if k == "t":
                continue
            h.update(repr(k).encode()); dig_update(h, x[k], depth + 1)
    elif isinstance(x, (float, np.floating)):
        h.update(np.float64(x).tobytes())
    elif callable(x):
        h.update(b"callable")
    else:
        h.update(repr(x).encode())


def digest_of(*xs):
    h = hashlib.sha1()
    for x in xs:
        dig_update(h, x)
    return h.hexdigest()[:20]


def global_state_bytes():
    s = np.random.get_state()
    return (s[0], s[1].tobytes(), s[2], s[3], s[4])


def poison(kind, k):
    """Allocate and free arrays of many sizes filled with garbage: later np.empty calls of those sizes see it."""
    val = [np.nan, 1e300, -7.25, 1e-300][kind % 4]
    keep = []
    for size in list(range(1, 260)) + [300, 384, 512, 600, 768, 1024, 2048, 4096]:
        for _ in range(1 + k % 2):
            keep.append(np.full(size, val))
    del keep


class Counting:
    def __init__(self, F):
        self.F, self.calls, self.n = F, 0, 0

    def __call__(self, I):
        self.calls += 1
        self.n += len(I)
        return self.F[tuple(np.asarray(I, dtype=int).T)]


def default_dict_step(which, preset):
    """Run a routine with explicit fresh dictionaries and with its defaults; both digests are returned."""
    rng = np.random.default_rng(500 + preset)
    n = ac.mk_shape(rng)
    out = []
    if which == "cross":
        F = ac.dense_of(ac.mk_tt(np.random.default_rng(500), n := [4, 3, 4], 3))
        Y0 = ac.mk_tt(np.random.default_rng(501), n, 2)
        # preset selects the argument combination; a later call must not inherit anything (budget, cache counters, ...)
        # that an earlier call with ANOTHER combination left in the default dictionaries
        args = [dict(nswp=2), dict(nswp=12, cache={}, m_cache_scale=1e9), dict(m=40, nswp=3), dict(e=1e-3, nswp=6)][preset % 4]
        for explicit in (True, False):
            f = Counting(F)
            kw = dict(args)
            if "cache" in kw:
                kw["cache"] = {}
            if explicit:
                kw["info"] = {}
                kw.setdefault("cache", None)
            Y = teneva.cross(f, [G.copy() for G in Y0], dr_min=1, dr_max=1, **kw)
            out.append(digest_of(Y, f.calls, f.n))
    elif which == "als":
        I = ac.cover_idx(rng, n, 20)
        y = rng.normal(size=len(I))
        Y0 = ac.mk_tt(rng, n, 2)
        for explicit in (True, False):
            kw = dict(info={}) if explicit else {}
            out.append(digest_of(teneva.als(I, y, Y0, 2, **kw, lamb=0.01)))
    elif which == "als_func":
        d = 2 + preset % 2
        X = rng.uniform(-1, 1, size=(15, d))
        y = np.cos(X.sum(axis=1))
        A0 = ac.mk_tt(rng, [3] * d, 2)
        for explicit in (True, False):
            kw = dict(info={}) if explicit else {}
            out.append(digest_of(teneva.als_func(X, y, A0, -1., 1., 2, **kw, lamb=0.01)))
    else:
        out.append(digest_of(teneva.cache_to_data({})))
        out.append(digest_of(teneva.cache_to_data()))
    return out


def _scale_float_arrays(c, f):
    """Rescale by f and reverse every float ndarray among the arguments (incl. TT-cores in lists), IN PLACE (same objects)."""
    n = 0
    def walk(x):
        nonlocal n
        if isinstance(x, np.ndarray) and x.dtype.kind == "f" and x.flags.writeable and x.size:
            x *= f
            # also reverse along the mode axis (cores) / the first axis: a pure rescaling leaves argmax / sampling results unchanged
            if x.ndim == 3:
                x[...] = x[:, ::-1, :].copy()
            elif x.ndim >= 1:
                x[...] = x[::-1].copy()
            n += 1
        elif isinstance(x, list):
            for y in x:
                walk(y)
    for a in c.args:
        walk(a)
    for k, a in c.kwargs.items():
        if k not in ("info", "cache"):
            walk(a)
    return n


def mutate_rerun(op, preset, ctx):
    """Call, then change the caller's arrays IN PLACE (same list / ndarray objects, new contents) and call again: the second
    answer must be the one for the new contents, i.e. equal to a call on freshly built objects with those contents."""
    c = ac.build(op, 101 + preset, preset)
    if c.seed_kw is not None:
        c.kwargs[c.seed_kw] = SEEDS[preset % len(SEEDS)]
    if c.mutable or "info" in c.kwargs or op in ("cross", "cross_act", "rand_custom", "func_int_general", "getter", "cdf_getter"):
        return                                    # callbacks / filled dictionaries: covered by their own properties
    def run(call):
        try:
            return digest_of(call.run())
        except Exception as e:  # noqa: BLE001
            return "raised:" + type(e).__name__
    run(c)
    if _scale_float_arrays(c, 0.5) == 0:
        return
    second = run(c)
    f = ac.build(op, 101 + preset, preset)
    if f.seed_kw is not None:
        f.kwargs[f.seed_kw] = SEEDS[preset % len(SEEDS)]
    _scale_float_arrays(f, 0.5)
    fresh = run(f)
    ctx.check(second == fresh, f"{op}: after the caller changed its arrays in place, the call still answers for the old contents "
                               "(or differs from a call on fresh objects with the same contents)", op=op, preset=preset, second=second, fresh=fresh)


def run_history(steps, ctx):
    """Pure function of the step list: executes the history and checks every re-occurrence."""
    table = {}
    changed_since = {}
    epoch = 0
    calls = []
    nontrivial = False
    pending_poison = [None]

    def do_call(op, preset, si, spelling, bseed=None, variant=None):
        nonlocal nontrivial
        if bseed is None:
            c = ac.build(op, 101 + preset, preset)
            key = (op, preset)
        else:
            # "neighbour" calls: the SAME base data (builder seed) with another argument variant, so that calls share part of
            # their arguments (same tensor with another k, same grid with another order m, ...)
            c = ac.build(op, bseed, variant)
            key = (op, "v", bseed, variant)
        gen_obj = None
        if c.seed_kw is not None:
            s = SEEDS[si % len(SEEDS)]
            if spelling == "gen":
                gen_obj = np.random.Generator(np.random.PCG64(s))
                c.kwargs[c.seed_kw] = gen_obj
            else:
                c.kwargs[c.seed_kw] = s
            key = key + (s, "gen" if gen_obj is not None else "int")
        if pending_poison[0] is not None:
            poison(*pending_poison[0])        # right before the call: building the arguments recycles the freed blocks otherwise
        g0 = global_state_bytes()
        try:
            res = c.run()
            dg = digest_of(res, {k: v for k, v in c.kwargs.items() if k in ("info",)},
                           repr(gen_obj.bit_generator.state) if gen_obj is not None else "")
        except Exception as e:  # noqa: BLE001 - a deterministic exception is a deterministic result
            dg = "raised:" + type(e).__name__ + ":" + str(e)[:80]
        g1 = global_state_bytes()
        ctx.check(g0 == g1, f"{op}: the state of the global NumPy generator changed during the call", key=list(map(str, key)))
        if key in table:
            if changed_since[key] < epoch:
                nontrivial = True
            ctx.check(table[key] == dg, f"{op}: same arguments and seed gave a different result after other steps of the history",
                      key=list(map(str, key)), first=table[key], now=dg)
        else:
            table[key] = dg
        changed_since[key] = epoch
        ctx.inner(1)

    for stp in steps:
        kind = stp[0]
        if kind == "seed_global":
            np.random.seed(stp[1]); epoch += 1
        elif kind == "consume_global":
            np.random.rand(stp[1]); np.random.shuffle(np.arange(5)); epoch += 1
        elif kind == "poison":
            poison(stp[1], stp[2]); pending_poison[0] = (stp[1], stp[2]); epoch += 1
        elif kind == "call":
            calls.append(stp[1:])
            do_call(*stp[1:]); epoch += 1
        elif kind == "repeat":
            if calls:
                do_call(*calls[stp[1] % len(calls)])
        elif kind == "callv":
            calls.append((stp[1], 0, stp[4], stp[5], stp[2], stp[3]))
            do_call(stp[1], 0, stp[4], stp[5], stp[2], stp[3]); epoch += 1
        elif kind == "mutate_rerun":
            mutate_rerun(stp[1], stp[2], ctx); epoch += 1; ctx.inner(1)
        elif kind == "default_dict":
            which, preset = stp[1], stp[2]
            g0 = global_state_bytes()
            a, b = default_dict_step(which, preset)
            ctx.check(global_state_bytes() == g0, f"{which}: global generator state changed")
            ctx.check(a == b, f"{which}: result with default dictionaries differs from the result with explicit fresh ones (state carried over)",
                      which=which, preset=preset)
            key = ("default_dict", which, preset)
            if key in table:
                if changed_since[key] < epoch:
                    nontrivial = True
                ctx.check(table[key] == a, f"{which}: repeated call differs", which=which)
            table[key] = a
            changed_since[key] = epoch
            epoch += 1
            ctx.inner(1)
    ctx.nontrivial(nontrivial)
    ctx.label(f"steps:{min(len(steps) // 10 * 10, 40)}")
    for stp in steps:
        if stp[0] == "call":
            ctx.label("op:" + stp[1])


def prop_history(case, ctx):
    st0 = np.random.get_state()
    try:
        run_history(case["steps"], ctx)
    finally:
        np.random.set_state(st0)


def custom(tier, hseed, shard, nshards, stats):
    n_examples = 80 if tier == "quick" else 500
    seeded_ops = [op for op in ac.OPS if ac.build(op, 101, 0).seed_kw is not None]
    all_ops = list(ac.OPS)

    class History(RuleBasedStateMachine):
        def __init__(self):
            super().__init__()
            self.steps = []

        @rule(s=st.integers(0, 2 ** 31 - 1))
        def seed_global(self, s):
            self.steps.append(["seed_global", s])

        @rule(k=st.integers(1, 50))
        def consume_global(self, k):
            self.steps.append(["consume_global", k])

        @rule(kind=st.integers(0, 3), k=st.integers(0, 14))
        def poison_heap(self, kind, k):
            self.steps.append(["poison", kind, k])

        @rule(op=st.sampled_from(seeded_ops), preset=st.integers(0, NPRESET - 1), si=st.integers(0, 2), sp=st.sampled_from(["int", "gen"]))
        def call_seeded(self, op, preset, si, sp):
            self.steps.append(["call", op, preset, si, sp])

        @rule(op=st.sampled_from(all_ops), preset=st.integers(0, NPRESET - 1), si=st.integers(0, 2), sp=st.sampled_from(["int", "gen"]))
        def call_any(self, op, preset, si, sp):
            self.steps.append(["call", op, preset, si, sp])

        @rule(op=st.sampled_from(all_ops), bseed=st.integers(200, 203), v=st.integers(0, 11), si=st.integers(0, 2), sp=st.sampled_from(["int", "gen"]))
        def call_neighbour(self, op, bseed, v, si, sp):
            self.steps.append(["callv", op, bseed, v, si, sp])

        @rule(op=st.sampled_from(all_ops), preset=st.integers(0, NPRESET - 1))
        def mutate_and_rerun(self, op, preset):
            self.steps.append(["mutate_rerun", op, preset])

        @rule(j=st.integers(0, 40))
        def repeat(self, j):
            self.steps.append(["repeat", j])

        @rule(which=st.sampled_from(["cross", "als", "als_func", "cache_to_data"]), preset=st.integers(0, 3))
        def default_dicts(self, which, preset):
            self.steps.append(["default_dict", which, preset])

        def teardown(self):
            stats.run_case({"steps": self.steps})

    run_state_machine_as_test(
        hypothesis.seed(hseed)(History),
        settings=settings(max_examples=n_examples, stateful_step_count=40, database=None, deadline=None, derandomize=False,
                          report_multiple_bugs=False, suppress_health_check=list(HealthCheck),
                          phases=[Phase.generate, Phase.shrink], print_blob=False))


def enum_sweep(tier, shard, nshards):
    """Deterministic complement of the random histories: every catalogue entry x preset, called under three different
    global states / heap states (exhaustive over ops x presets x seeds x spellings)."""
    j = 0
    for op in ac.OPS:
        for preset in range(NPRESET):
            if j % nshards == shard:
                steps = []
                for si in range(3):
                    for sp in ("int", "gen"):
                        steps += [["call", op, preset, si, sp], ["seed_global", 7 + si], ["consume_global", 3], ["poison", si, preset],
                                  ["repeat", len([s for s in steps if s[0] == "call"])], ["poison", si + 1, preset + 3], ["seed_global", 99],
                                  ["repeat", len([s for s in steps if s[0] == "call"])]]
                yield {"steps": steps}
            j += 1


def enum_neighbours(tier, shard, nshards):
    """For every catalogue entry: all argument variants on the same base data in ascending order, then in descending order, then
    every variant once more - a result may not depend on which neighbouring calls came before; plus the in-place mutation probe."""
    j = 0
    nv = 8 if tier == "quick" else 16
    for op in ac.OPS:
        for bseed in (200, 201):
            if j % nshards == shard:
                up = [["callv", op, bseed, v, 0, "int"] for v in range(nv)]
                steps = up + up[::-1] + [["poison", 1, 2]] + up + [["mutate_rerun", op, p] for p in range(NPRESET)]
                yield {"steps": steps}
            j += 1


def enum_default_pairs(tier, shard, nshards):
    """Every ordered pair (and triple with a repeat) of argument combinations of the routines with default dictionaries."""
    j = 0
    for which in ("cross", "als", "als_func", "cache_to_data"):
        for a in range(4):
            for b in range(4):
                if j % nshards == shard:
                    yield {"steps": [["default_dict", which, a], ["default_dict", which, b], ["poison", a, b], ["default_dict", which, a],
                                      ["default_dict", "cross", b], ["default_dict", which, b]]}
                j += 1


# ------------------------------------------------------------------------------------------- order independence (forked)

def _scribble(x, depth=0):
    """Overwrite every array reachable from a result in place (what a caller may do with what it was handed)."""
    if isinstance(x, np.ndarray):
        if x.dtype == object:
            for y in x.ravel():
                _scribble(y, depth + 1)
        elif x.flags.writeable and x.size:
            try:
                x[...] = 3 if x.dtype.kind in "iub" else 7.25
            except (ValueError, TypeError):
                pass
    elif isinstance(x, (list, tuple)) and depth < 6:
        for y in x:
            _scribble(y, depth + 1)
    elif isinstance(x, dict) and depth < 6:
        for y in x.values():
            _scribble(y, depth + 1)


def _digest_calls(calls, scribble=False):
    out = []
    for (op, bseed, v) in calls:
        for rep in range(2 if scribble else 1):
            c = ac.build(op, bseed, v)          # fresh argument objects every time
            if c.seed_kw is not None:
                c.kwargs[c.seed_kw] = 0
            try:
                res = c.run()
                dg = digest_of(res, {k: x for k, x in c.kwargs.items() if k in ("info",)})
                if scribble:
                    _scribble(res)
            except Exception as e:  # noqa: BLE001 - a deterministic exception is a deterministic result
                dg = "raised:" + type(e).__name__ + ":" + str(e)[:80]
            out.append(dg)
    return out


def _in_fork(calls, scribble=False):
    """Run the calls in a forked child of the current process state and return their digests (None if the child died)."""
    import os, json
    r, w = os.pipe()
    pid = os.fork()
    if pid == 0:
        code = 0
        try:
            os.close(r)
            data = json.dumps(_digest_calls(calls, scribble)).encode()
            with os.fdopen(w, "wb") as f:
                f.write(data)
        except BaseException:  # noqa: BLE001
            code = 3
        finally:
            os._exit(code)
    os.close(w)
    with os.fdopen(r, "rb") as f:
        data = f.read()
    _, status = os.waitpid(pid, 0)
    if status != 0 or not data:
        return None
    return json.loads(data.decode())


def prop_order(case, ctx):
    """State that a routine keeps between calls (module-level or default-argument caches keyed on part of the arguments) makes a result
    depend on WHICH OTHER data the routine saw before.  Two data sets A, B (different builder seeds, same sizes) x variants: the calls are
    executed in the orders A..B.., B..A.., interleaved and all descending, each in its own child forked from the same parent state; every call must give
    the same digest in all three histories."""
    op, (sa, sb), nv = case["op"], case["bs"], case["nv"]
    A = [(op, sa, v) for v in range(nv)]
    B = [(op, sb, v) for v in range(nv)]
    inter = [x for pair in zip(B, A) for x in pair]
    orders = {"A_then_B": A + B, "B_then_A": B + A, "interleaved": inter, "variants_descending": (A + B)[::-1]}
    res = {}
    for name, calls in orders.items():
        d = _in_fork(calls)
        if d is None:
            raise RuntimeError(f"forked history {name} of {op} died")
        res[name] = dict(zip(calls, d))
    # a caller may overwrite what it was handed: every call is made twice on fresh argument objects, the arrays of the first result
    # being overwritten in place in between (a routine that hands out an object it keeps would return the overwritten values)
    d = _in_fork(A + B, scribble=True)
    if d is None:
        raise RuntimeError(f"forked history scribble of {op} died")
    res["results_overwritten_1st"] = dict(zip(A + B, d[0::2]))
    res["results_overwritten_2nd"] = dict(zip(A + B, d[1::2]))
    ctx.label("op:" + op)
    ctx.nontrivial(True)
    for call in A + B:
        ds = {name: r[call] for name, r in res.items()}
        ctx.check(len(set(ds.values())) == 1, f"{op}: the result of a call depends on which other calls came before / on what the caller did with an earlier result",
                  call=list(call), digests=ds)
        ctx.inner(1)


def enum_order(tier, shard, nshards):
    j = 0
    pairs = [(300, 301)] if tier == "quick" else [(300, 301), (302, 303), (304, 300)]
    for op in ac.OPS:
        for bs in pairs:
            if j % nshards == shard:
                yield {"op": op, "bs": list(bs), "nv": 4 if tier == "quick" else 8}
            j += 1


# ------------------------------------------------------------------------------------------- seeded routine fed from a file (history = who wrote the file)

@st.composite
def file_cases(draw, tier):
    n = [draw(st.integers(2, 4)) for _ in range(draw(st.integers(2, 4)))]
    return {"n": n, "m": draw(st.integers(12, 40)), "dseed": draw(st.integers(0, 10 ** 6)), "order": draw(st.integers(1, 2)), "r": draw(st.integers(2, 4)),
            "noise": draw(st.sampled_from([1e-10, 1e-10, 1e-3, 1.0, 0.0])), "seed": draw(st.sampled_from(SEEDS + [7, 12345])),
            "writers": [(draw(st.sampled_from([None, 0, 1, 5, 99])), draw(st.integers(0, 3)), draw(st.booleans())) for _ in range(2)],
            "spelling": draw(st.sampled_from(["anova", "anova", "ANOVA"]))}


def prop_file(case, ctx):
    """`anova(None, None, r, order, noise, seed, fpath)` / `ANOVA(fpath=...)`: the model comes from a file another object wrote.  Two
    files holding the same model, written by objects with different seeds and different numbers of random draws behind them, and the
    model built in memory from the same data must give bit-identical cores for the same seed; a Generator is the only source of
    random numbers (its state afterwards is that of a twin used on the in-memory model) and the global stream is not touched."""
    import os, tempfile, shutil
    n, order, r, noise, s = case["n"], case["order"], case["r"], case["noise"], case["seed"]
    rng = np.random.default_rng(case["dseed"])
    It = ac.cover_idx(rng, n, case["m"])
    yt = rng.normal(size=len(It))

    def run(seed, fpath=None):
        a = (None, None) if fpath else (It, yt)
        if case["spelling"] == "anova":
            return teneva.anova(*a, r, order, noise, seed, fpath)
        return teneva.ANOVA(*a, order, seed, fpath).cores(r, noise)

    ctx.label("spelling:" + case["spelling"], f"order={order}", f"noise={noise:g}")
    ctx.nontrivial(noise > 0)
    tmp = tempfile.mkdtemp(prefix="c10file")
    try:
        paths = []
        for j, (wseed, draws, use_cores) in enumerate(case["writers"]):
            w = ctx.lib(teneva.ANOVA, It, yt, order, wseed)
            for _ in range(draws):
                ctx.lib(w.sample)
            if use_cores:
                ctx.lib(w.cores, 2, 1e-3)
            paths.append(os.path.join(tmp, f"model{j}.pickle"))
            ctx.lib(w.save, paths[-1])
        np.random.seed(4321)
        g0 = global_state_bytes()
        ref = digest_of(ctx.lib(run, s))
        got = [digest_of(ctx.lib(run, s, p)) for p in paths]
        ctx.check(got[0] == got[1], "anova(seed, fpath): two files holding the same model (written by objects with different random histories) "
                  "give different results for the same seed", seed=s, writers=case["writers"], digests=got)
        ctx.check(got[0] == ref, "anova(seed, fpath): the result differs from that of the model built in memory from the same data with the same seed",
                  seed=s, from_file=got[0], in_memory=ref)
        other = digest_of(ctx.lib(run, s + 1, paths[0]))
        ctx.check(other == digest_of(ctx.lib(run, s + 1)), "anova(seed, fpath): the result differs from that of the model built in memory (second seed)", seed=s + 1)
        ga, gb = np.random.default_rng(s), np.random.default_rng(s)
        da, db = digest_of(ctx.lib(run, ga, paths[1])), digest_of(ctx.lib(run, gb))
        ctx.check(da == db, "anova(Generator, fpath): result differs from that of an equal Generator on the model built in memory", from_file=da, in_memory=db)
        ctx.check(digest_of(ga.bit_generator.state) == digest_of(gb.bit_generator.state), "anova(Generator, fpath): the Generator was not advanced as on the "
                  "model built in memory (the random numbers came from somewhere else)")
        ctx.check(global_state_bytes() == g0, "anova(seed, fpath) touched the global NumPy stream")
        ctx.inner(4)
    finally:
        shutil.rmtree(tmp, ignore_errors=True)


SUBCHECKS = [
    Sub("neighbours", prop_history, enumerate=enum_neighbours, exhaustive=True),
    Sub("default_dict_pairs", prop_history, enumerate=enum_default_pairs, exhaustive=True),
    Sub("histories", prop_history, custom=custom),
    Sub("sweep", prop_history, enumerate=enum_sweep, exhaustive=True),
    Sub("order_swap", prop_order, enumerate=enum_order, exhaustive=True),
    Sub("file_history", prop_file, strategy=file_cases, quick=30, thorough=300),
]
