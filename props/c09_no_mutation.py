"""C09 - public functions never modify their arguments or alias their results to them."""
import numpy as np
from hypothesis import strategies as st

import harness.core  # noqa: F401
from harness.core import Sub
from harness import gen
from harness import api_catalogue as ac

LEVEL = "exploration"
RULE = ("API catalogue: for each of the 98 exported callables a builder produces valid arguments for a drawn (seed, variant) - variants cover the "
        "documented argument combinations (flags, optional arrays, list vs ndarray spellings) - and every ndarray argument (and every TT-core) "
        "is put into a drawn memory layout (C, Fortran, non-contiguous strided view). Oracle: deep byte snapshot of every argument before/after "
        "(array bytes, dtype, shape; list identity and element identities; dict items), np.shares_memory between every result array and every "
        "argument array, then a write probe (results overwritten with a sentinel, arguments re-compared). Documented exceptions are encoded per "
        "entry. A completeness sub-check compares the catalogue with dir(teneva). Non-trivial = the call received and returned at least one "
        "array; distinct by (function, variant, layout, seed).")
TOLERANCES = "exact (bytes, identities, memory overlap)"
ASSUMPTIONS = ["undocumented service arguments (optima_tt_beam(to_orth=, p=), get(_to_item=), cross(func=), mean(norm=)) are outside 'documented argument combination'",
               "a call that raises (e.g. getter without numba, the draft cross_act on some inputs) must still leave its arguments unchanged; it is labelled, not failed",
               "callbacks passed by the harness return fresh arrays"]


def arrays_in(x, out=None, depth=0):
    """All ndarrays reachable through lists / tuples / dicts / object arrays."""
    out = [] if out is None else out
    if depth > 6:
        return out
    if isinstance(x, np.ndarray):
        if x.dtype == object:
            for y in x.ravel():
                arrays_in(y, out, depth + 1)
        else:
            out.append(x)
    elif isinstance(x, (list, tuple)):
        for y in x:
            arrays_in(y, out, depth + 1)
    elif isinstance(x, dict):
        for y in x.values():
            arrays_in(y, out, depth + 1)
    return out


def snap(x, depth=0):
    if isinstance(x, np.ndarray):
        if x.dtype == object:
            return ("objarr", x.shape, tuple(snap(y, depth + 1) for y in x.ravel()))
        return ("arr", id(x), x.shape, str(x.dtype), x.tobytes())
    if isinstance(x, list):
        return ("list", id(x), tuple(id(y) for y in x), tuple(snap(y, depth + 1) for y in x))
    if isinstance(x, tuple):
        return ("tuple", tuple(snap(y, depth + 1) for y in x))
    if isinstance(x, dict):
        return ("dict", id(x), tuple((repr(k), snap(v, depth + 1)) for k, v in x.items()))
    if callable(x):
        return ("callable", id(x))
    return ("val", repr(x))


def diff(a, b, path="arg"):
    if a[0] != b[0]:
        return f"{path}: kind changed"
    if a[0] == "arr":
        if a[1:4] != b[1:4]:
            return f"{path}: array identity/shape/dtype changed"
        if a[4] != b[4]:
            return f"{path}: array contents changed"
        return None
    if a[0] == "list":
        if a[1] != b[1] or a[2] != b[2]:
            return f"{path}: list elements were rebound / list changed"
        for j, (x, y) in enumerate(zip(a[3], b[3])):
            r = diff(x, y, f"{path}[{j}]")
            if r:
                return r
        return None
    if a[0] in ("tuple", "objarr"):
        xs, ys = a[-1], b[-1]
        if len(xs) != len(ys):
            return f"{path}: length changed"
        for j, (x, y) in enumerate(zip(xs, ys)):
            r = diff(x, y, f"{path}[{j}]")
            if r:
                return r
        return None
    if a[0] == "dict":
        if len(a[2]) != len(b[2]):
            return f"{path}: dict size changed"
        for (k1, v1), (k2, v2) in zip(a[2], b[2]):
            if k1 != k2:
                return f"{path}: dict keys changed"
            r = diff(v1, v2, f"{path}[{k1}]")
            if r:
                return r
        return None
    return None if a == b else f"{path}: value changed"


@st.composite
def calls(draw, tier):
    return {"op": draw(st.sampled_from(ac.OPS)), "seed": draw(st.integers(0, 10 ** 6)), "variant": draw(st.integers(0, 47)),
            "layout": draw(st.sampled_from(["C", "F", "N"]))}


def prop_call(case, ctx):
    op = case["op"]
    c = ac.build(op, case["seed"], case["variant"])
    lay = case["layout"]
    c.args = [ac.relayout(a, lay) for a in c.args]
    c.kwargs = {k: (ac.relayout(a, lay) if k not in ("info", "cache") else a) for k, a in c.kwargs.items()}
    ctx.label("op:" + op, "layout:" + lay)
    items = [(j, a) for j, a in enumerate(c.args)] + list(c.kwargs.items())
    before = {k: snap(a) for k, a in items}
    raised = None
    try:
        res = c.run()
    except Exception as e:  # noqa: BLE001 - whether the call succeeds is not this property's business
        raised = e
        res = None
        ctx.label("raised:" + op)
    arg_arrays = []
    for k, a in items:
        if k in c.mutable:
            continue
        arg_arrays += arrays_in(a)

    def compare(stage):
        for k, a in items:
            if k in c.mutable:
                continue
            r = diff(before[k], snap(a), f"argument {k!r}")
            ctx.check(r is None, f"{op}: {r} ({stage})", variant=case["variant"], layout=lay)

    compare("after the call" if raised is None else f"after the call raised {type(raised).__name__}")
    if raised is not None:
        return
    res_arrays = arrays_in(res)
    if not c.alias_ok:
        for R in res_arrays:
            for A in arg_arrays:
                if R.size and A.size and np.may_share_memory(R, A) and np.shares_memory(R, A):
                    ctx.check(False, f"{op}: a returned array shares memory with an argument", variant=case["variant"], layout=lay,
                              result_shape=list(R.shape), arg_shape=list(A.shape))
        # write probe: later writes to the result must not reach the arguments
        for R in res_arrays:
            if R.flags.writeable and R.size:
                try:
                    R[...] = 77 if R.dtype.kind in "iu" else 12345.678
                except (ValueError, TypeError):
                    pass
        compare("after overwriting the results")
    ctx.nontrivial(bool(arg_arrays) and bool(res_arrays))


def enum_complete(tier, shard, nshards):
    if shard == 0:
        yield {"check": "catalogue_complete"}


def prop_complete(case, ctx):
    names = ac.exported_names()
    missing = sorted(set(names) - set(ac.OPS))
    extra = sorted(set(ac.OPS) - set(names))
    ctx.check(not missing, "exported functions without a catalogue entry (a new public function must get a builder)", missing=missing)
    ctx.check(not extra, "catalogue entries that are no longer exported", extra=extra)
    ctx.inner(len(names))
    ctx.nontrivial(True)


SUBCHECKS = [
    Sub("calls", prop_call, strategy=calls, quick=3000, thorough=15000),
    Sub("catalogue_complete", prop_complete, enumerate=enum_complete, shards=1),
]
