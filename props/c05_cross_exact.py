"""C05 - TT-cross reproduces low-rank tensors and caching is transparent."""
import math
import numpy as np
from hypothesis import strategies as st

import harness.core  # noqa: F401
from harness.core import Sub
from harness import gen, oracle
from harness.doubles import Objective
from harness.oracle import EPS, dense, dense_abs, fro, K_of

import teneva

LEVEL = "exploration"
RULE = ("Hypothesis draws a target of exact TT-rank rho (gauss/float cores, rank profiles rank1/uniform/ragged up to 3, d 2..5, mode sizes 1..5), "
        "an initial tensor teneva.rand(n, r0, seed) and a regime: fixed rank (dr_min=dr_max=0, r0 = rho profile, nswp 3..5) or growth "
        "(r0=1, 1<=dr_min<=dr_max<=2, nswp >= max rho+1); with/without cache; with/without validation data. Oracle: dense target; "
        "a second uncached run for the cache-transparency relations; independent recomputation of info values; an independent run with "
        "nswp-1 sweeps for the 'previous sweep' tensor. Sub-check info_stops: runs ended in every documented way (e, e with a sweep cap, nswp, nswp=0, "
        "e_vld reached / already met by a warm start, budget m, cache 'conv'), from rank-1 / rho / over-ranked starts (ranks no unfolding can carry), "
        "validation data with or without a threshold, no callback, no log: info['r'], info['e_vld'], info['m'] recomputed from the returned tensor. Non-trivial = max rho >= 2 or growth regime; distinct by SHA-1 of the case.")
TOLERANCES = ("||dense(Y)-T|| <= 1e-7 ||T|| when every unfolding of the target has condition number (on its numerical rank) <= 1e6, else only "
              "well-formedness; cached vs plain cores bit-identical; info['e'] inside the rounding interval of a Gram-based relative distance")
ASSUMPTIONS = ["targets drawn from a continuous distribution (the property says 'almost all')", "d >= 2",
               "m_cache_scale=1e9 in the cached run so that the cache-specific 'conv' stop does not fire (the property excludes it)"]


@st.composite
def cross_cases(draw, tier):
    dmax = 4 if tier == "quick" else 5
    T = draw(gen.tt_specs(d_max=dmax, n_max=5, r_max=3, size_max=1024 if tier == "quick" else 3125,
                          families=("gauss", "float", "gauss", "float", "smallint"), rank_families=("rank1", "uniform", "ragged")))
    rho = max(T["r"])
    regime = draw(st.sampled_from(["fixed", "growth"]))
    case = {"T": T, "regime": regime, "y0seed": draw(st.integers(0, 10 ** 6)), "cache": draw(st.booleans()),
            "vld": draw(st.booleans()), "vseed": draw(gen.seeds), "extra": draw(st.integers(0, 2)),
            "scale10": draw(st.sampled_from([0, 0, 0, 6, -6, 30, -30, 100, -100, -170, -250, 140]))}
    if regime == "growth":
        case["dr_min"] = draw(st.integers(1, 2))
        case["dr_max"] = draw(st.integers(case["dr_min"], 2))
    if T["fam"] == "smallint":
        # an integer-valued table: the objective may hand its values back as float32 / integer arrays or as a list (all exact)
        case["scale10"] = 0
        case["out"] = draw(st.sampled_from(["float32", "float32", "int64", "int32", "list", "float16"]))
    return case


def run_cross(ctx, F, Y0, *, nswp, dr_min, dr_max, cache, I_vld=None, y_vld=None, cb=None, info=None, **kw):
    f = Objective(F)
    info = {} if info is None else info
    Y = ctx.lib(teneva.cross, f, Y0, nswp=nswp, dr_min=dr_min, dr_max=dr_max, info=info, cache=cache,
                I_vld=I_vld, y_vld=y_vld, cb=cb, **kw)
    return Y, info, f


def typed_objective(case, ctx, F, n, rho):
    """Integer-valued targets are not generic (dependent fibres), so reproduction is not claimed for them; what is: the values of the
    objective are numbers whatever array type carries them.  The run with values handed back as float32 / float16 / int64 / int32 arrays
    or as a list must be bit-identical to the run with float64 arrays (cores, info, the index batches asked for) - with and without cache."""
    out = case["out"]
    if out == "float16" and np.abs(F).max() > 2048:
        out = "float32"
    ctx.label("objective_returns:" + out)
    ctx.check(out == "list" or np.array_equal(F.astype(out).astype(float), F), "harness: target values not exact in the objective's dtype")
    if case["regime"] == "fixed":
        Y0 = ctx.lib(teneva.rand, n, case["T"]["r"], seed=case["y0seed"])
        kw = dict(nswp=3 + case["extra"], dr_min=0, dr_max=0)
    else:
        Y0 = ctx.lib(teneva.rand, n, 1, seed=case["y0seed"])
        kw = dict(nswp=rho + 1 + case["extra"], dr_min=case["dr_min"], dr_max=case["dr_max"])
    rng = np.random.default_rng(case["vseed"])
    I_vld = np.vstack([rng.integers(0, k, size=7) for k in n]).T if case["vld"] else None
    res = {}
    for name, o in (("float64", None), (out, out)):
        f = Objective(F, out=o)
        info = {}
        y_vld = None if I_vld is None else (F[tuple(I_vld.T)] if o in (None, "list") else F[tuple(I_vld.T)].astype(o))
        Y = ctx.lib(teneva.cross, f, Y0, info=info, cache={} if case["cache"] else None, I_vld=I_vld, y_vld=y_vld, **kw)
        why = oracle.wellformed(Y, n, finite=False)
        ctx.check(why is None, f"cross (objective returns {name}): malformed result: {why}")
        res[name] = (Y, {k: v for k, v in info.items() if k != "t"}, f.batches)
    (Ya, ia, ba), (Yb, ib, bb) = res["float64"], res[out]
    ctx.check(len(ba) == len(bb) and all(np.array_equal(x, y) for x, y in zip(ba, bb)), "cross asks for other indices when the objective returns its (same) values "
              f"as {out} instead of float64 arrays", calls_float64=len(ba), calls_typed=len(bb))
    ctx.check(all(np.array_equal(x, y, equal_nan=True) and x.dtype == y.dtype for x, y in zip(Ya, Yb)) and len(Ya) == len(Yb),
              f"cross: the result depends on the array type ({out}) in which the objective returns exactly representable values",
              diff=max((float(np.max(np.abs(x - y))) for x, y in zip(Ya, Yb) if x.shape == y.shape), default=None), ranks=[oracle.ranks_of(Ya), oracle.ranks_of(Yb)])
    ctx.check(repr(sorted(ia.items())) == repr(sorted(ib.items())), f"cross: info differs when the objective returns {out}", float64=ia, typed=ib)
    ctx.inner(2)


def prop_cross(case, ctx):
    Tspec = case["T"]
    T = gen.build_tt(Tspec)
    T[0] = T[0] * 10.0 ** case.get("scale10", 0)
    n = Tspec["n"]
    d = len(n)
    F = dense(T)
    ctx.label(f"scale=1e{case.get('scale10', 0)}")
    nrm = fro(F)
    rho = max(Tspec["r"])
    ctx.label(*gen.spec_labels(Tspec), "regime:" + case["regime"], "cache" if case["cache"] else "nocache", "vld" if case["vld"] else "novld")
    ctx.nontrivial(rho >= 2 or case["regime"] == "growth")
    if case.get("out"):
        return typed_objective(case, ctx, F, n, rho)
    if case["regime"] == "fixed":
        Y0 = ctx.lib(teneva.rand, n, Tspec["r"], seed=case["y0seed"])
        dr_min = dr_max = 0
        nswp = 3 + case["extra"]
    else:
        Y0 = ctx.lib(teneva.rand, n, 1, seed=case["y0seed"])
        dr_min, dr_max = case["dr_min"], case["dr_max"]
        nswp = rho + 1 + case["extra"]
    I_vld = y_vld = None
    if case["vld"] and abs(case.get("scale10", 0)) <= 140:
        # (the data-set error is a ratio of plain Euclidean norms: its squares must be representable, so no validation data
        #  for targets of magnitude 1e-170 / 1e-250; the reproduction claim itself is scale-free)
        rng = np.random.default_rng(case["vseed"])
        I_vld = np.vstack([rng.integers(0, k, size=7) for k in n]).T
        y_vld = F[tuple(I_vld.T)]
        if not np.any(y_vld):
            I_vld = y_vld = None

    seen = []

    def cb(Y, info, opts):
        seen.append(([G.copy() for G in opts["Yold"]], [G.copy() for G in Y], dict(info)))

    snap0 = [G.copy() for G in Y0]
    # the caller keeps one info dictionary: an earlier budgeted / cached run must leave nothing behind that changes this run
    shared = {}
    ctx.lib(teneva.cross, Objective(F), Y0, m=7 + case["extra"], nswp=1, info=shared, cache={}, dr_min=dr_min, dr_max=dr_max)
    Yp, ip, fp = run_cross(ctx, F, Y0, nswp=nswp, dr_min=dr_min, dr_max=dr_max, cache=None, I_vld=I_vld, y_vld=y_vld, cb=cb, info=shared)
    why = oracle.wellformed(Yp, n)
    ctx.check(why is None, f"cross: result not well-formed: {why}")
    ctx.check(all(np.array_equal(a, b) for a, b in zip(Y0, snap0)), "cross modified its initial approximation")
    ctx.check(ip["stop"] == "nswp" and ip["nswp"] == nswp, "cross: did not run the requested number of sweeps", info={k: ip[k] for k in ("stop", "nswp")})
    ctx.check(ip["m"] == fp.evaluated, "info['m'] differs from the number of evaluated indices", m=ip["m"], evaluated=fp.evaluated)

    # (a) reproduction of the target
    cond = 1.0
    for k in range(1, d):
        s = oracle.unfold_svals(F, k)
        rk = int(np.sum(s > 1e-12 * s[0])) if s[0] > 0 else 0
        if rk:
            cond = max(cond, float(s[0] / s[rk - 1]))
    err = fro(dense(Yp) - F)
    if cond > 1e6 or nrm == 0:
        ctx.label("ill_conditioned")
    else:
        ctx.check(err <= 1e-7 * nrm, "cross did not reproduce the exact-rank target", rel_err=err / nrm, cond_unfold=cond, ranks=oracle.ranks_of(Yp), rho=Tspec["r"])

    # (c) info values belong to the returned tensor / the previous sweep
    ctx.check(abs(ip["r"] - oracle.erank_ref(Yp)) <= 1e-9 * oracle.erank_ref(Yp), "info['r'] is not the effective rank of the returned tensor", got=ip["r"], ref=oracle.erank_ref(Yp))
    if I_vld is not None:
        vals = dense(Yp)[tuple(I_vld.T)]
        tv = (K_of(Yp) * EPS * dense_abs(Yp))[tuple(I_vld.T)]
        ref = float(np.linalg.norm(vals - y_vld) / np.linalg.norm(y_vld))
        ctx.check(abs(ip["e_vld"] - ref) <= float(np.linalg.norm(tv) / np.linalg.norm(y_vld)) * 4 + 1e-12 * ref,
                  "info['e_vld'] is not the validation error of the returned tensor", got=ip["e_vld"], ref=ref)
    else:
        ctx.check(ip["e_vld"] == -1, "info['e_vld'] should be -1 without validation data", got=ip["e_vld"])
    ctx.check(len(seen) == nswp, "callback was not called once per sweep", calls=len(seen), nswp=nswp)
    # the callback is documented to run after every sweep "and the accuracy check": what it reads in info belongs to the tensor it gets
    for s_, (_, Ycb, icb) in enumerate(seen, 1):
        ctx.check(icb["nswp"] == s_, "info['nswp'] seen by the callback is not the number of the finished sweep", seen=icb["nswp"], sweep=s_)
        ctx.check(abs(icb["r"] - oracle.erank_ref(Ycb)) <= 1e-9 * oracle.erank_ref(Ycb), "info['r'] seen by the callback is not the effective rank of the tensor it was given", sweep=s_)
        if I_vld is not None:
            vals = dense(Ycb)[tuple(I_vld.T)]
            tv = (K_of(Ycb) * EPS * dense_abs(Ycb))[tuple(I_vld.T)]
            ref = float(np.linalg.norm(vals - y_vld) / np.linalg.norm(y_vld))
            ctx.check(abs(icb["e_vld"] - ref) <= float(np.linalg.norm(tv) / np.linalg.norm(y_vld)) * 4 + 1e-12 * ref,
                      "info['e_vld'] seen by the callback is not the validation error of the tensor it was given", sweep=s_, got=icb["e_vld"], ref=ref)
        else:
            ctx.check(icb["e_vld"] == -1, "info['e_vld'] seen by the callback should be -1 without validation data", got=icb["e_vld"])
    # the tensor of "the previous sweep" before the first sweep is the initial approximation itself (the pre-iteration only re-parametrises it)
    F0 = dense(Y0)
    ctx.check(fro(dense(seen[0][0]) - F0) <= 1e-8 * max(fro(F0), 1e-300), "Yold handed to the first callback does not denote the initial tensor",
              rel=fro(dense(seen[0][0]) - F0) / max(fro(F0), 1e-300))
    Yold_last, Ycb_last, _ = seen[-1]
    ctx.check(all(np.array_equal(a, b) for a, b in zip(Ycb_last, Yp)), "tensor seen by the last callback differs from the returned one")
    iv = oracle.accuracy_interval(Yp, Yold_last)
    if iv is not None:
        ctx.check(iv[0] - 1e-300 <= ip["e"] <= iv[1] + 1e-300, "info['e'] is not the relative distance to the tensor of the previous sweep",
                  got=ip["e"], lo=iv[0], hi=iv[1])
    # the tensor of the previous sweep is what an independent run with one sweep less returns (cross is deterministic)
    Yprev, iprev, _ = run_cross(ctx, F, Y0, nswp=nswp - 1, dr_min=dr_min, dr_max=dr_max, cache=None)
    ctx.check(len(Yprev) == len(Yold_last) and all(np.array_equal(a, b) for a, b in zip(Yprev, Yold_last)),
              "Yold handed to the callback differs from an independent run with nswp-1 sweeps")

    # (c') the same info identities on a deliberately poor approximation (rank-1 start, no growth, one sweep): the reported
    # validation error must be the relative error of the returned tensor also when it is far from converged
    Y0p = ctx.lib(teneva.rand, n, 1, seed=case["y0seed"])
    infq = {}
    Yq = ctx.lib(teneva.cross, Objective(F), Y0p, nswp=1, dr_min=0, dr_max=0, info=infq, I_vld=I_vld, y_vld=y_vld)
    ctx.check(oracle.wellformed(Yq, n) is None, "cross (rank-1, one sweep): malformed result")
    ctx.check(abs(infq["r"] - oracle.erank_ref(Yq)) <= 1e-9 * oracle.erank_ref(Yq), "info['r'] is not the effective rank of the returned tensor (poor run)")
    if I_vld is not None:
        vals = dense(Yq)[tuple(I_vld.T)]
        tv = (K_of(Yq) * EPS * dense_abs(Yq))[tuple(I_vld.T)]
        ref = float(np.linalg.norm(vals - y_vld) / np.linalg.norm(y_vld))
        ctx.check(abs(infq["e_vld"] - ref) <= float(np.linalg.norm(tv) / np.linalg.norm(y_vld)) * 4 + 1e-12 * ref,
                  "info['e_vld'] is not the validation error of the returned tensor (rank-1 start, one sweep)", got=infq["e_vld"], ref=ref)

    # (b) cache transparency
    if case["cache"]:
        cache = {}
        Yc, ic, fc = run_cross(ctx, F, Y0, nswp=nswp, dr_min=dr_min, dr_max=dr_max, cache=cache, I_vld=I_vld, y_vld=y_vld, m_cache_scale=1e9)
        ctx.check(len(Yc) == len(Yp) and all(np.array_equal(a, b) for a, b in zip(Yc, Yp)), "cores differ between the cached and the plain run")
        ctx.check(ic["nswp"] == ip["nswp"] and ic["stop"] == ip["stop"], "sweep count / stop reason differ with a cache", cached=[ic["nswp"], ic["stop"]], plain=[ip["nswp"], ip["stop"]])
        ctx.check(ic["m"] <= ip["m"], "more evaluations with a cache than without", cached=ic["m"], plain=ip["m"])
        ctx.check(ic["m"] + ic["m_cache"] == ip["m"], "m + m_cache of the cached run differs from the request count of the plain run",
                  m=ic["m"], m_cache=ic["m_cache"], plain=ip["m"])
        ctx.check(ic["m"] == fc.evaluated, "info['m'] of the cached run differs from the number of evaluated indices", m=ic["m"], evaluated=fc.evaluated)
        asked = [tuple(int(x) for x in row) for b in fc.batches if b is not None for row in b]
        ctx.check(len(asked) == len(set(asked)), "an index was evaluated more than once although a cache was supplied", asked=len(asked), distinct=len(set(asked)))
        keys = {tuple(int(x) for x in k) for k in cache.keys()}
        ctx.check(keys == set(asked), "cache keys differ from the evaluated indices", keys=len(keys), asked=len(set(asked)))
        for k, v in cache.items():
            ref = float(F[tuple(int(x) for x in k)])
            if v != ref:
                ctx.check(False, "cache holds a value that the objective did not return for that index", key=[int(x) for x in k], got=v, ref=ref)
        ctx.check(abs(ic["e"] - ip["e"]) == 0 and ic["r"] == ip["r"], "info['e'] / info['r'] differ with a cache")


# ---------------------------------------------------------------------------------------------------------------------
# info values under every way a run can end (no callback, no log): 'the validation error and effective rank reported in
# info are those of the returned tensor' for all initial ranks (also ranks no unfolding can carry), all sweep counts
# (also 0) and validation data given with or without a validation threshold
@st.composite
def stop_cases(draw, tier):
    T = draw(gen.tt_specs(d_max=4 if tier == "quick" else 5, n_max=5, r_max=3, size_max=1024, families=("gauss", "float"),
                          rank_families=("rank1", "uniform", "ragged")))
    return {"T": T, "y0": draw(st.sampled_from(["one", "rho", "over", "over"])), "r_over": draw(st.integers(2, 6)),
            "y0seed": draw(st.integers(0, 10 ** 6)), "vseed": draw(gen.seeds), "vld": draw(st.sampled_from([True, True, False])),
            "stop": draw(st.sampled_from(["e", "e_nswp", "nswp0", "nswp", "e_vld", "e_vld_met", "m"])),
            "cache": draw(st.booleans()), "dr": draw(st.sampled_from([(0, 0), (1, 1), (1, 2), (0, 1)])),
            "nswp": draw(st.integers(1, 4)), "m": draw(st.integers(1, 400)), "scale10": draw(st.sampled_from([0, 0, 3, -3, 40, -40]))}


def prop_stops(case, ctx):
    Tspec = case["T"]
    T = gen.build_tt(Tspec)
    T[0] = T[0] * 10.0 ** case["scale10"]
    n = Tspec["n"]
    d = len(n)
    F = dense(T)
    rng = np.random.default_rng(case["vseed"])
    I_vld = y_vld = None
    if case["vld"] or case["stop"] in ("e_vld", "e_vld_met"):
        I_vld = np.vstack([rng.integers(0, k, size=9) for k in n]).T
        y_vld = F[tuple(I_vld.T)]
        if not np.any(y_vld):
            return ctx.label("zero_validation_values")
    if case["y0"] == "one":
        Y0 = ctx.lib(teneva.rand, n, 1, seed=case["y0seed"])
    elif case["y0"] == "rho":
        Y0 = ctx.lib(teneva.rand, n, Tspec["r"], seed=case["y0seed"])
    else:
        Y0 = ctx.lib(teneva.rand, n, case["r_over"], seed=case["y0seed"])
    if case["stop"] == "e_vld_met":
        # a warm start that already meets the validation threshold: the target itself (re-parametrised by a truncation)
        Y0 = [G.copy() for G in T]
    feasible = all(r <= min(int(np.prod(n[:k])), int(np.prod(n[k:]))) for k, r in enumerate(oracle.ranks_of(Y0)[1:-1], 1))
    kw = {"e": dict(e=1e-9), "e_nswp": dict(e=1e-9, nswp=50), "nswp0": dict(nswp=0), "nswp": dict(nswp=case["nswp"]),
          "e_vld": dict(e_vld=1e-6, nswp=30), "e_vld_met": dict(e_vld=1e-3, nswp=5), "m": dict(m=case["m"])}[case["stop"]]
    if case["stop"] in ("e", "e_nswp", "e_vld") and case["dr"] == (0, 0) and case["y0"] == "one":
        kw["nswp"] = min(kw.get("nswp") or 6, 6)
    info = {}
    f = Objective(F, max_calls=3000)
    cache = {} if case["cache"] else None
    Y = ctx.lib(teneva.cross, f, Y0, dr_min=case["dr"][0], dr_max=case["dr"][1], info=info, cache=cache, I_vld=I_vld, y_vld=y_vld,
                **({"m_cache_scale": 1e9} if kw.get("nswp") is not None else {}), **kw)   # (a budget-only cached run needs the 'conv' stop to end)
    if f.runaway:
        return ctx.label("runaway")
    ctx.label("stop_arg:" + case["stop"], "stopped:" + str(info.get("stop")), "y0:" + case["y0"], "feasible" if feasible else "over_ranked_start",
              "vld" if I_vld is not None else "novld", "cache" if case["cache"] else "nocache", f"scale=1e{case['scale10']}")
    ctx.nontrivial(not feasible or I_vld is not None)
    why = oracle.wellformed(Y, n)
    ctx.check(why is None, f"cross: result not well-formed: {why}", stop=info.get("stop"))
    ctx.check(info.get("stop") in ("e", "nswp", "e_vld", "m", "conv"), "cross returned without a documented stop reason", stop=info.get("stop"))
    er = oracle.erank_ref(Y)
    ctx.check(abs(info["r"] - er) <= 1e-9 * er, "info['r'] is not the effective rank of the returned tensor", got=info["r"], ref=er,
              stop=info["stop"], nswp=info["nswp"], ranks=oracle.ranks_of(Y), ranks0=oracle.ranks_of(Y0))
    ctx.check(info["m"] == f.evaluated, "info['m'] differs from the number of evaluated indices", m=info["m"], evaluated=f.evaluated)
    if I_vld is None:
        ctx.check(info["e_vld"] == -1, "info['e_vld'] should be -1 without validation data", got=info["e_vld"])
    else:
        vals = dense(Y)[tuple(I_vld.T)]
        tv = (K_of(Y) * EPS * dense_abs(Y))[tuple(I_vld.T)]
        ny = float(np.linalg.norm(y_vld))
        ref = float(np.linalg.norm(vals - y_vld) / ny)
        ctx.check(abs(info["e_vld"] - ref) <= float(np.linalg.norm(tv) / ny) * 4 + 1e-12 * ref,
                  "info['e_vld'] is not the validation error of the returned tensor", got=info["e_vld"], ref=ref, stop=info["stop"], nswp=info["nswp"])
        if info["stop"] == "e_vld":
            ctx.check(info["e_vld"] < kw["e_vld"], "stopped on the validation threshold with a larger reported error", got=info["e_vld"], thr=kw.get("e_vld"))
    if case["stop"] == "nswp0":
        ctx.check(info["stop"] == "nswp" and info["nswp"] == 0, "nswp=0 did not end with stop='nswp' after zero sweeps", stop=info["stop"], nswp=info["nswp"])
        # zero sweeps: only the pre-iteration ran, which re-parametrises the initial tensor (exactly, also when ranks shrink)
        F0 = dense(Y0)
        ctx.check(fro(dense(Y) - F0) <= 1e-8 * max(fro(F0), 1e-300), "cross(nswp=0) does not return the initial tensor",
                  rel=fro(dense(Y) - F0) / max(fro(F0), 1e-300), ranks0=oracle.ranks_of(Y0), ranks=oracle.ranks_of(Y))
    if case["stop"] == "nswp":
        ctx.check(info["stop"] == "nswp" and info["nswp"] == case["nswp"], "did not run the requested number of sweeps", stop=info["stop"], nswp=info["nswp"])


SUBCHECKS = [
    Sub("cross_exact", prop_cross, strategy=cross_cases, quick=200, thorough=2000),
    Sub("info_stops", prop_stops, strategy=stop_cases, quick=400, thorough=4000),
]
