"""C15 - optimum search returns true tensor entries and is exact when nothing is pruned.

Routines: optima_tt_beam (both sweep directions, ret_all), optima_tt_max, optima_tt, optima_qtt (+ ind_qtt_to_tt) and
optima_func_tt_beam.  optima_tt_maxvol is not part of the property.

What the code guarantees (read off optima.py) and what is asserted
------------------------------------------------------------------
validity (always)   returned multi-index is an integer ndarray inside the bounds; the returned value equals the dense
                    entry at that index (it is `teneva.get(Y, i)`, so the abs-majorant bound of one entry evaluation
                    applies; bit-for-bit on small-integer cores); y_min <= y_max; the inputs are not modified.
full beam (k>=size) the beam keeps, after every core, the k partial multi-indices of largest sub-tensor norm.  The
                    number of partial indices after any core is <= size, so with k >= size nothing is ever pruned in
                    either direction and the first returned index is the arg-max of the *computed* squared entries.
                    The computed entries carry the rounding of an orthogonalisation sweep (QR/RQ, use_stab rescaling
                    by 2**p0 per core) and of the contractions: |fl - exact| <= c*eps*S with S = prod_k ||G_k||_F
                    (normwise bound; S majorises every entry of the abs-majorant tensor).  Two entries whose moduli
                    differ by less than twice that may be swapped, hence VALUES are compared with
                        tau = 9*K*eps*S,   K = 32*(d + sum r + max n)            (max-modulus element)
                    The opposite extremum is the max-modulus element of Z = (Y - y1)^2; its entries are computed with
                    an error t = 8*K_Z*eps*S_Z, S_Z = prod_k(||G_k||_F^2 + n_k*|y1|^(2/d)) (Frobenius norms of the
                    Kronecker-squared cores of Y - y1), so the found entry is at distance >= sqrt(Dmax^2 - t) from y1:
                        tol_opp = 2*tau + min(sqrt(t), t/(D - tau)),   D = max - min.
                    (For a nearly constant tensor this is ~sqrt(eps)*scale: the squaring loses half of the digits.
                    DESIGN's flat 1e-9*scale would be unsound there.  For max|Y| <= 1e-16 teneva.const builds the shift
                    from unit cores, S_Z is then O(size) and the opposite side is effectively unconstrained: label
                    `tiny_scale_opp_unconstrained`.)  Which member of (y_min, y_max) is y1 cannot be read off the pair
                    when both have the same modulus, so both assignments are accepted.
rank 1, any k       every computed entry is a product of d factors (relative error only) and a separable product is
                    maximised greedily: optima_tt_beam / optima_tt_max are exact for every k with tau = 9*K*eps*max|Y|,
                    and so is the max-modulus member of optima_tt's pair.  The other member comes from a second pass
                    over (Y - y1)^2, which is not rank 1: open finding `rank1-opposite-side` (coded predicate below).
optima_qtt          searches tt_to_qtt(Y, 1e-12, 100); the same claims hold for the QTT image, whose distance delta to
                    Y is measured (and capped by an a-priori bound), values are re-read from Y.  A rank-1 TT with mode
                    size 2^q, q >= 2, is in general NOT rank 1 after quantisation: open finding `rank1-qtt-maxmod`.
                    Rank-1 inputs whose QTT image is rank 1 by construction (q = 1, Kronecker-separable mode vectors)
                    must be exact on the max-modulus side.
functional          rank-1 coefficient tensor: returned point in [-1,1]^d and |interpolant| there >=
                    (1-1e-6) * prod_k max_{20001-point grid}|f_k| (independent Chebyshev evaluation and func_get).
wide dynamic range  sub-check `spike` (and kind `spike` of `qtt`): entries of order one plus one or two isolated entries of
                    modulus A = 1e3..1e12 (either sign), full beam.  The claims are the ones above, nothing is added; the
                    point is that tol_opp stays SMALL against the spread of the order-one entries when the rank-1 spike
                    block is balanced over the cores like teneva.delta: S ~ A, S_Z ~ A^2*prod(1+n_k), hence
                    tol_opp ~ 8*K_Z*eps*prod(1+n_k)*A  (~1e-3..1e-1 at A = 1e8..1e10 for sizes <= 64), so an opposite-side
                    extremum that is merely "some order-one entry" is rejected (labels tol_opp/spread:* give the histogram).
                    Badly balanced layouts (A in one core) are generated too; there the normwise bounds are loose.
extreme scales      sub-check `scaled`: an order-one tensor times 10**x or 2**x, |x| <= 250 decades, the factor balanced over the
                    cores (10**(x/d) each, the usual spelling), in the first / last / one drawn core, or per core with
                    exponents of both signs whose contiguous partial sums stay within +-|x|.  The routines are stabilised
                    (orthogonalize(use_stab=True), 2**p0 per step, normalisation by q_max BEFORE squaring), so the claims above
                    hold at every representable scale.  The reference is scale-free (class ScaledRef): every core is split
                    exactly into M_k * 2**e_k, the dense reference and all tolerances are those of M, returned values are
                    divided exactly by 2**sum(e_k); arg-max of |Y| / Y / -Y is invariant.  Measured on the unmodified tree:
                    optima_tt_beam / optima_tt_max exact up to 1e+-300 in all layouts; optima_tt (squares the shifted
                    tensor core by core) exact up to 1e+-150 and wrong / raising beyond -> it is called only while every
                    partial product of cores is within 2**+-470 (~1e+-141).  The opposite-side tolerance uses the actual
                    cores of teneva.const (|y1|**(1/d) each above 1e-16, unit cores and y1 in the last one below): it is
                    tight for balanced cores at huge scales and for the factor in the last core at tiny scales (labels
                    tol_opp/spread:*), loose (sound, little teeth) in the other layouts.
unequal modes       sub-check `qtt_shapes`: optima_qtt on power-of-two mode sizes that are not all equal ([4,8,4], [2,4,2],
                    [8,4,8], [4,4,8], ..., d = 2, 3 (thorough: up to 5)).  Documented outcome: ValueError.  Asserted: the
                    call raises ValueError, or it returns and the validity clause holds (integer indices of length d inside
                    the bounds, values = entries, y_min <= y_max, inputs untouched); any other exception is a violation.
large modes         sub-check `qtt_big`: optima_qtt (and ind_qtt_to_tt on its own, bit strings up to q = 30, d = 1..3) on shapes
                    [2^q]*d with q = 9..12 (mode sizes 512..4096, d = 2, 3; up to 2^36 elements), where index arithmetic that is only
                    right for short modes (a narrow integer type, the low byte of a packed bit field, a dropped top bit) shows.
                    No dense enumeration (except kind `full`): values are checked against an own chain evaluation at the returned
                    index, the distance of the QTT image is bounded core by core (qtt_distance), and the optimum is known BY
                    CONSTRUCTION; its position p is drawn with emphasis on p >= 256, p = 2^q - 1, p = 256, top bit set, low byte 0.
                    (a) `qsep`: rank-1 TT whose mode vectors are Kronecker products of 2-vectors (larger modulus at bit j of p, the
                    other entry rho_j times it, |rho_j| <= 0.95, optionally tied / zero bits): the QTT image is rank 1 (up to
                    junk singular directions of relative size eps that matrix_svd keeps), so the property's rank-1 clause holds
                    for every k: max-modulus member exact within tau = 2*q*d*eta + 2*delta (class BigRef), opposite member ->
                    open finding `rank1-opposite-side` when sub-optimal.  (b) `dominant`: the same background normalised to unit
                    Frobenius norm plus amp*e_p, |amp| = 3..100: every partial index on the way to p has sub-tensor norm >=
                    |amp| - 1, every other one <= 1, so the beam (k rows of largest sub-tensor norm) keeps p first for every
                    k >= 1 in both sweeps: the reported maximum (amp > 0) / minimum (amp < 0) must sit AT p (asserted while
                    eta < (|amp| - 2)/4).  (c) `qsum`: sums of 2..3 such terms, pruned beam: validity, ordering and agreement with
                    optima_tt of the QTT image mapped back by the bit formula.  (d) `full` (~2 % of the cases): shape [512, 512],
                    1..2 terms (+ isolated entry), k >= 2^18: all full-beam claims of `run_qtt` against the dense tensor.
                    The agreement with the mapped-back QTT search is asserted in (a)-(c).
long chains         sub-check `long`: d = 8..150 (thorough 200) modes of size 1..4, candidate counts 1..20 (always k << size), the overall
                    magnitude 1e-303..1e+303 spread over the cores (10**(x/d) or 2**e_k per core, one core, random / ramp / zigzag
                    paths of per-core exponents whose partial sums stay within 303 decades).  Dense enumeration is impossible; the
                    max-modulus element is known BY CONSTRUCTION: (a) rank 1: the product of the per-mode maxima of |G_k| (the
                    property's "every rank-1 tensor with any candidate count" clause); (b) rank 1 except for a segment of 2..3
                    cores of rank 2 holding T = a_1 x .. x a_m + amp*e_p with ||a_1 x .. x a_m||_F = 1, |amp| >= 3: then
                    |Y| = |L|*|T|*|R| with separable L, R, and for every partial index the sub-tensor norm is maximal on the
                    prefix of (argmax L, p, argmax R) by a factor >= 2 inside the segment (|T[p]| >= 2 >= 2*||T - T[p]e_p||_F),
                    so the beam of the anchor (k rows of largest sub-tensor norm) never prunes it for any k >= 1, in either
                    direction.  Asserted: index validity; |Y[i]|/max|Y| >= 1 - tol for optima_tt_beam (both sweeps),
                    optima_tt_max and the larger member of optima_tt's pair, the ratio being a product of per-mode ratios
                    (scale-free); returned values against an own left-to-right evaluation with the binary exponent carried
                    separately; rank 1: the ret_all table is ordered and holds the k largest moduli (merge of the per-mode
                    ratio tables), up to the moduli that are subnormal at the end of the sweep.  The stabilisation
                    (orthogonalize(use_stab) -> 2**p, p/d per core) is what makes this hold at 1e-300 for d = 100: p is of the
                    order of +-1000 and every inexact treatment of it (integer division, rounding) under- or overflows
                    the work array.  optima_tt is called while every partial product is within 2**+-470; its opposite-side
                    member is classified against the exact opposite extremum of a rank-1 tensor (sign-parity recursion over
                    the modes) and reported as open finding `rank1-opposite-side` when sub-optimal, never asserted.
call histories      sub-check `history` (and the `hist` part of `func`): the routines are pure functions of the VALUES of
                    the cores at the time of the call.  One list object is searched, refilled with another tensor of the
                    same mode sizes (item assignment / slice assignment / clear+extend with new arrays, in-place overwrite
                    of the same arrays, the overwritten arrays in a new list; all or some cores; equal or different
                    ranks), and searched again with a drawn sequence of routines: every answer must be valid and exact
                    (full beam / rank 1) for the tensor the list holds at that moment.
"""
import math
import itertools
import numpy as np
from hypothesis import strategies as st

import harness.core  # noqa: F401  (sets sys.path for the code under test)
from harness.core import Sub
from harness import gen
from harness.oracle import EPS, dense, dense_abs, K_of

import teneva

LEVEL = "exploration"
RULE = ("Hypothesis draws TT specs (d 2..5(6), mode sizes 1..5, rank profiles rank1/uniform/ragged/over_ranked, value "
        "families smallint(ties)/dyadic/float/gauss/scaled/rank_deficient/zero/explicit, optionally shifted to "
        "all-negative / all-positive / nearly constant by an extra rank-1 block), candidate counts k in {1, small, any, "
        ">= size}, both sweep directions; optima_qtt on shapes [2^q]*d, q 1..3 (q 9..12: see large modes), incl. Kronecker-separable rank-1 inputs; "
        "rank-1 Chebyshev coefficient tensors with mode sizes 1..7 for the functional variant; an exhaustive sweep over "
        "integer tensors of shapes [2,2]/[2,3]/[3,2] (rank 1, entries -2..2, every k; rank 2 [2,2], entries -1..1; the quick "
        "tier sweeps fixed subsets: 1/16 of the two larger shapes, 1/3 of the rank-2 part); wide-dynamic-range tensors (order-one "
        "base + 1..2 isolated entries of modulus 1e3..1e12, either sign, balanced or one-core layout, global scale 2**(g*d), "
        "full beam; also for optima_qtt); call histories on ONE list object (2..3 tensors of the same mode sizes, refilled by "
        "item/slice assignment, clear+extend, in-place overwrite, overwritten arrays in a new list, all or some cores, 1..3 "
        "drawn routine calls incl. optima_qtt on power-of-two shapes after every refill; the same for optima_func_tt_beam); "
        "extreme scales: order-one tensors (d 2..5, optionally shifted all-negative / all-positive) times 10**x or 2**x, |x| <= 250 "
        "decades (emphasis on 100..140 and 200..250), factor balanced / first / last / one core / per-core exponents of both signs "
        "with bounded partial sums, any k; optima_qtt on power-of-two mode sizes that are not all equal (d 2..3(5), q 1..3, first and "
        "last mode equal or not). large modes: optima_qtt on [2^q]*d, q 9..12, d 2..3, k in {1,2,3,5,10,30,100}: Kronecker-separable rank-1 "
        "tensors / unit-norm separable background + isolated entry of modulus 3..100 / sums of 2..3 separable terms, peak positions drawn "
        "from {2^q-1, 256, top bit set, low byte zero, >= 256, last 256, 255/256/257/511/512/n-2/n-256/n-257, anywhere}, tied and zero bits, "
        "~2 % full beam on [512,512]; ind_qtt_to_tt on the bit strings of such positions for q up to 30, d 1..3. long chains: d 8..150(200) modes of size 1..4, rank 1 (mode vectors nearly flat 1+-2**-7..-27 / gauss / uniform / "
        "small integers / dyadic / peaky / half flat half peaky / mixed; positive, negative, mixed signs) or rank 1 with a rank-2 segment "
        "of 2..3 cores holding a dominant isolated entry (|amp| 3..100, start / middle / end), magnitude 10**x or 2**x, |x| <= 303 decades "
        "(emphasis on 280..303), balanced / one core / random, ramp and zigzag per-core exponents, k in 1..20, optimum known by construction. "
        "Oracle = dense enumeration of all entries (long chains: per-mode ratio tables). Non-trivial = at least two modes of size >= 2 "
        "and (some rank >= 2, or tied extremal values, or rank 1 with k < size); functional: >= 2 modes of size >= 3; history: a call "
        "after a refill that changed the values, with k >= size or rank-1 content; "
        "scaled: the same with |scale| beyond 1e+-90; qtt_shapes: every case; long: d >= 30; qtt_big: the constructed optimum (qsum: the "
        "answer) has an index >= 256 in some mode and the tolerance is below half the gap to the next modulus; "
        "distinct by SHA-1 of the case."
        " STORAGE (`storage`): tensors with small-integer cores (0..2, 1..9, -3..4; d 2..5; rank 1 or ranks 1..3; shapes [2^q]*d for optima_qtt) kept in int64 / int32 arrays (all cores, the first core, every other core) against the float64 copy: optima_tt / optima_tt_max / optima_tt_beam (both directions) / optima_qtt must return identical indices and values; non-trivial there = d >= 3 or rank >= 2.")
TOLERANCES = ("validity: |y - dense[i]| <= 32*(d+sum r+max n)*eps*E(|cores|)[i] (== on small-integer cores); max-modulus under a "
              "full beam: tau = 9*K*eps*prod||G_k||_F (rank 1: 9*K*eps*max|Y|); opposite extremum: 2*tau + min(sqrt(t), t/(D-tau)), "
              "t = 8*K_Z*eps*prod(||G_k||_F^2 + n_k|y1|^(2/d)); optima_qtt: the same on the QTT image + 2*delta (measured QTT "
              "distance, capped a priori); functional: relative 1e-6 against a 20001-point grid maximum; extreme scales: the same formulas on "
              "the exactly normalised cores M_k = Y_k/2**e_k, values divided exactly by 2**sum(e_k), t with the actual cores of "
              "teneva.const evaluated in log2; long chains: |Y[i]|/max|Y| >= 1 - 16*d*(d+8)*eps (rows compared by the beam carry <= 5j "
              "relative roundings after j cores) + 9*K_seg*eps*S_T/|T[p]| for a rank-2 segment; values: K*eps*abs-majorant in an own "
              "scaled evaluation; ret_all order / top-k: relative 2*tol plus the moduli below 2**-1020 (subnormal in the sweep); "
              "large modes: values K*eps*abs-majorant of an own chain evaluation; delta <= sum_k max_i||W_k[i]-G_k[i]||_F prod_{j!=k} max_i "
              "max(||W_j[i]||_F, ||G_j[i]||_F) (W = blocks of the QTT image); eta = delta*sqrt(size) + 9*K*eps*prod||Zq_k||_F; rank-1 image: "
              "tau = 2*q*d*eta + 2*delta; dominant entry: index equality while eta < (|amp|-2)/4")
ASSUMPTIONS = [
    "d >= 2 (library-wide precondition), k >= 1 integer",
    "exactness under a full beam is asserted for k >= number of tensor elements (then k >= every partial index set)",
    "optima_qtt: cores of O(1) magnitude (no 'scaled' family) because tt_to_qtt truncates with the ABSOLUTE accuracy e = 1e-12; "
    "default e, r of optima_qtt",
    "rank-1 claims for optima_qtt are hard only if the QTT image is rank 1 by construction (q = 1 or Kronecker-separable mode vectors)",
    "functional variant: rank-1 coefficient tensors only (property text); default interval [-1, 1]",
    "open findings rank1-opposite-side / rank1-qtt-maxmod are excluded by coded predicates and counted",
    "NumPy dense enumeration is the reference; BLAS single-threaded (deterministic repeated calls)",
    "call histories: a refill keeps the mode sizes (ranks may change when whole cores are assigned); the reference is recomputed "
    "from a snapshot of the list after every refill; an open finding met in the middle of a history is reported after its last call",
    "spike families: only the generic full-beam / validity claims are asserted (tolerances derived as everywhere else)",
    "extreme scales: tensors whose cores are finite and whose every contiguous partial product of cores (hence every entry, every "
    "prefix product in teneva.get and every R*core product of the sweeps) stays within 2**+-960, i.e. 10**+-250 times an order-one "
    "tensor; then no intermediate of optima_tt_beam / optima_tt_max over- or underflows and the relative error model is scale "
    "covariant (measured: exact up to 1e+-300 on the unmodified tree)",
    "extreme scales, optima_tt: called only while every contiguous partial product of cores is within 2**+-470 (~1e+-141): the "
    "routine squares the shifted tensor core by core, beyond about 1e+-154 those squares over- / underflow on the unmodified tree "
    "(measured: exact at 1e+-150, wrong answers / exceptions from 1e+155 and below 1e-160); optima_qtt is not run on scaled tensors",
    "long chains: max|Y| and every contiguous partial product of the per-core maxima within 2**+-1016 (the drawn path of decimal "
    "exponents stays in a window of 303 decades holding 0 and x), mode sizes <= 4 and d <= 200 (the best partial product of the "
    "normalised tensor then decays no faster than the scale 2**(p/d) per core compensates), no zero core; values are compared only "
    "if every left-to-right prefix product at the returned index is a normal number (teneva.get holds them in floating point)",
    "long chains, kind `segment` (rank 2 on 1..2 bonds): exactness for k < size is NOT in the property text; it is asserted because it "
    "follows from the anchored mechanism (beam keeps the rows of largest sub-tensor norm) for a separable chain around a block whose "
    "dominant entry exceeds twice the Frobenius norm of the rest of the block (derivation in the module docstring)",
    "qtt_big: mode sizes 512..4096 (q 9..12), d 2..3, cores of O(1)..O(100) magnitude, default e, r of optima_qtt; kind `dominant` (rank 2): "
    "exactness for k < size is NOT in the property text; it is asserted because it follows from the anchored mechanism (beam keeps the rows "
    "of largest sub-tensor norm) when one entry exceeds three times the Frobenius norm of the rest, and only while the error bound eta of "
    "the computed sub-tensor norms is below a quarter of the margin |amp| - 2; kind `qsum`: no optimality claim",
    "qtt_shapes: for unequal power-of-two mode sizes the documented outcome is ValueError; 'raises ValueError or returns a valid "
    "answer' is asserted, optimality of a returned answer is not",
]

GRID = np.linspace(-1.0, 1.0, 20001)


# ------------------------------------------------------------------------------------------------ tensors

def exact_ok(spec):
    return spec["fam"] == "smallint" or (spec["fam"] == "explicit" and all(float(v).is_integer() for c in spec["cores"] for v in c))


def build(ys):
    """ys = {"base": tt spec, "shift": none|neg|pos|near, "exp": int, "sgn": +-1} -> list of cores.

    The shifted variants append an independent rank-1 constant block (own block assembly, not teneva.add):
    entries = base + v with v = -2m (all negative), +2m (all positive) or +-m*2**exp (nearly constant), m = max|base|.
    """
    Y = gen.build_tt(ys["base"])
    mode = ys.get("shift", "none")
    if mode == "none":
        return Y
    F = dense(Y)
    m = float(np.max(np.abs(F)))
    if not np.isfinite(m) or m == 0:
        m = 1.0
    if mode == "neg":
        v = -2.0 * m
    elif mode == "pos":
        v = 2.0 * m
    else:
        v = ys["sgn"] * m * 2.0 ** ys["exp"]
    d = len(Y)
    Z = []
    for k, G in enumerate(Y):
        r1, n, r2 = G.shape
        c = v if k == 0 else 1.0
        if k == 0:
            H = np.concatenate([G, np.full((1, n, 1), c)], axis=2)
        elif k == d - 1:
            H = np.concatenate([G, np.full((1, n, 1), c)], axis=0)
        else:
            H = np.zeros((r1 + 1, n, r2 + 1))
            H[:r1, :, :r2] = G
            H[r1, :, r2] = c
        Z.append(H)
    return Z


def prodnorm(Y):
    nf = [float(np.linalg.norm(G)) for G in Y]
    return nf, float(math.prod(nf))


def is_rank1(Y):
    return all(G.shape[0] == 1 and G.shape[2] == 1 for G in Y)


class Ref:
    """Dense reference of one tensor and the derived tolerances (see the module docstring)."""

    def __init__(self, Y, extra_delta=0.0, search=None, relative=None):
        # `search` = the tensor the beam actually runs on (QTT image) if different from Y; extra_delta = max|search - Y|;
        # relative = the searched tensor is rank 1 (all computed entries are products: relative errors only)
        self.Y = Y
        self.n = [G.shape[1] for G in Y]
        self.d = len(Y)
        self.F = dense(Y)
        self.A = dense_abs(Y)
        self.size = int(self.F.size)
        self.K = K_of(Y)
        self.tolget = self.K * EPS * self.A
        self.Fmin = float(self.F.min())
        self.Fmax = float(self.F.max())
        self.mm = float(np.max(np.abs(self.F)))
        self.rank1 = is_rank1(Y)
        S = search if search is not None else Y
        nf, P = prodnorm(S)
        KS = K_of(S)
        self.delta = float(extra_delta)
        if (is_rank1(S) if relative is None else relative):
            self.tau = 9 * KS * EPS * (self.mm + self.delta) + 2 * self.delta
        else:
            self.tau = 9 * KS * EPS * P + 2 * self.delta
        dS = len(S)
        y1 = self.mm * (1 + 1e-9) + self.delta
        # teneva.const switches to unit cores for |v| <= 1e-16; near that switch the larger of the two scales is taken
        c2 = y1 ** (2.0 / dS) if y1 > 2e-16 else 1.0
        SZ = float(math.prod(f * f + G.shape[1] * c2 for f, G in zip(nf, S)))
        KZ = 32.0 * (dS + sum((G.shape[2] + 1) ** 2 for G in S) + max(G.shape[1] for G in S))
        D = self.Fmax - self.Fmin
        self.t = 8 * KZ * EPS * SZ + 4 * self.delta * (D + self.tau + self.delta)
        rt = math.sqrt(self.t)
        g = rt if D - self.tau <= 0 else min(rt, self.t / (D - self.tau))
        self.tol_opp = 2 * self.tau + g
        self.tiny = y1 <= 2e-16
        self.ties = bool(np.sum(np.abs(self.F) >= self.mm - self.tau) >= 2 or np.sum(self.F <= self.Fmin + self.tau) >= 2
                         or np.sum(self.F >= self.Fmax - self.tau) >= 2)


    E = 0                                       # the reference is expressed in units of 2**E (ScaledRef: E != 0)

    def unscale(self, y):
        """A value returned by the library in the units of the reference (identity here, exact division by 2**E in ScaledRef)."""
        return y


def normalise(Y):
    """Y_k = M_k * 2**e_k exactly, max|M_k| in [0.5, 1) (e_k = 0 for a zero core): the scale-free form of a TT-tensor."""
    M, e = [], []
    for G in Y:
        m = float(np.max(np.abs(G)))
        ek = math.frexp(m)[1] if (m > 0 and np.isfinite(m)) else 0
        M.append(np.ldexp(np.asarray(G, dtype=float), -ek))
        e.append(int(ek))
    return M, e


def spread_bits(e, zero=None):
    """max |e_i + ... + e_j| over all contiguous ranges of cores (binary exponents of every partial product of cores);
    a range containing a zero core has a zero product, so the ranges are taken between the zero cores."""
    best, seg = 0, []
    for j in range(len(e) + 1):
        if j == len(e) or (zero is not None and zero[j]):
            if seg:
                P = np.concatenate([[0], np.cumsum(seg)])
                best = max(best, int(P.max() - P.min()))
            seg = []
        else:
            seg.append(e[j])
    return best


L2_SWITCH_HI, L2_SWITCH_LO = math.log2(2e-16), math.log2(0.5e-16)      # teneva.const changes its layout at |v| = 1e-16


class ScaledRef(Ref):
    """Reference for an extremely scaled (but representable) tensor Y = 2**E * M, M = product of the normalised cores.

    arg-max of |Y|, of Y and of -Y do not depend on the factor 2**E, and division by 2**E is exact in binary64, so all
    comparisons are done in the units of M: F, A, tolget, tau are those of M (the rounding errors of get / QR / contractions
    are relative to the products of the core norms, i.e. covariant under exact power-of-two scaling as long as no partial
    product of cores leaves the normal range - see ASSUMPTIONS), values returned by the library are divided by 2**E.
    The bound t for the squared shifted tensor needs the ACTUAL cores of teneva.const(shape, y1): |y1|**(1/d) in every core
    if |y1| > 1e-16, else unit cores with y1 in the last one; S_Z = prod_k(||Y_k||_F^2 + n_k c_k^2) is evaluated in log2 and
    divided by 2**(2E).  (For E = 0 and |y1| > 1e-16 this is exactly Ref's formula.)
    """

    def __init__(self, Y):
        M, e = normalise(Y)
        super().__init__(M)
        self.e, self.E = e, int(sum(e))
        self.exact_split = all(np.array_equal(np.ldexp(Mk, ek), G) for Mk, ek, G in zip(M, e, Y))
        d = self.d
        nf = [float(np.linalg.norm(G)) for G in M]
        y1n = self.mm * (1 + 1e-9)
        L = math.log2(y1n) + self.E if y1n > 0 else -math.inf              # log2|y1| (upper estimate)
        lf2 = [2 * (math.log2(f) + ek) if f > 0 else -math.inf for f, ek in zip(nf, e)]
        ln = [math.log2(m) for m in self.n]
        cands = []
        with np.errstate(all="ignore"):
            if L > L2_SWITCH_LO:
                cands.append(sum(float(np.logaddexp2(a, b + 2 * L / d)) for a, b in zip(lf2, ln)))
            if L <= L2_SWITCH_HI:
                cands.append(sum(float(np.logaddexp2(a, b)) for a, b in zip(lf2[:-1], ln[:-1]))
                             + float(np.logaddexp2(lf2[-1], ln[-1] + 2 * L)))
        lSZ = max(cands) - 2 * self.E
        SZ = 2.0 ** min(lSZ, 1000.0) if lSZ > -1000 else 0.0
        KZ = 32.0 * (d + sum((G.shape[2] + 1) ** 2 for G in M) + max(self.n))
        D = self.Fmax - self.Fmin
        self.t = 8 * KZ * EPS * SZ
        rt = math.sqrt(self.t)
        g = rt if D - self.tau <= 0 else min(rt, self.t / (D - self.tau))
        self.tol_opp = 2 * self.tau + g
        self.tiny = L <= L2_SWITCH_HI and not self.tol_opp <= D          # label only: unit shift cores AND no teeth

    def unscale(self, y):
        try:
            return math.ldexp(y, -self.E)
        except OverflowError:
            return math.copysign(math.inf, y)


def check_index(ctx, i, n, what):
    ctx.check(isinstance(i, np.ndarray), f"{what}: multi-index is not an ndarray", got=type(i).__name__)
    ctx.check(i.ndim == 1 and i.shape[0] == len(n), f"{what}: multi-index has shape {i.shape}, expected ({len(n)},)")
    ctx.check(i.dtype.kind in "iu", f"{what}: multi-index has non-integer dtype {i.dtype}")
    ctx.check(all(0 <= int(i[k]) < n[k] for k in range(len(n))), f"{what}: multi-index out of bounds", index=i.tolist(), shape=n)
    return tuple(int(x) for x in i)


def check_value(ctx, ref, i, y, what, exact):
    ctx.check(np.ndim(y) == 0 and isinstance(y, (float, np.floating)), f"{what}: value is not a float scalar", got=repr(y))
    y = ref.unscale(float(y))
    f = float(ref.F[i])
    if exact:
        ctx.check(y == f, f"{what}: value is not bit-for-bit the tensor entry (small-integer cores)", got=y, ref=f, index=list(i))
    else:
        tol = float(ref.tolget[i])
        ctx.check(np.isfinite(y) and abs(y - f) <= tol, f"{what}: returned value is not the tensor entry at the returned index",
                  got=y, ref=f, tol=tol, index=list(i))
    return y


def sides(ref, y_min, y_max):
    """Exactness flags of an (y_min, y_max) pair against the dense extrema.

    One member of the pair is the max-modulus element y1 (exact within tau, hence the extremum of its side within tau),
    the other one comes from the second pass (tol_opp).  Which member is y1 cannot be read off the pair when both have the
    same modulus, so both assignments are tried.
    """
    mm_ok = max(abs(y_min), abs(y_max)) >= ref.mm - ref.tau
    big_min = y_min <= ref.Fmin + ref.tau                 # y_min is an exact max-modulus-side extremum
    big_max = y_max >= ref.Fmax - ref.tau
    opp_for_min = y_max >= ref.Fmax - ref.tol_opp         # the other member, if y_min is y1
    opp_for_max = y_min <= ref.Fmin + ref.tol_opp
    all_ok = mm_ok and ((big_min and opp_for_min) or (big_max and opp_for_max))
    big_ok = big_min or big_max
    return mm_ok, big_ok, all_ok


def info(ref, y_min, y_max, k):
    return dict(y_min=y_min, y_max=y_max, true_min=ref.Fmin, true_max=ref.Fmax, true_maxmod=ref.mm, tau=ref.tau,
                tol_opp=ref.tol_opp, k=k, size=ref.size, shape=ref.n)


def check_pair(ctx, ref, y_min, y_max, k, routine, q_not_rank1=False, rank1_input=None):
    """Exactness of an (y_min, y_max) pair: hard under a full beam, rank-1 rules + coded known findings otherwise."""
    mm_ok, big_ok, all_ok = sides(ref, y_min, y_max)
    kw = info(ref, y_min, y_max, k)
    r1 = ref.rank1 if rank1_input is None else rank1_input
    if k >= ref.size:
        ctx.check(mm_ok, f"{routine}: full beam (k >= size) but the maximum-modulus element was missed", **kw)
        ctx.check(all_ok, f"{routine}: full beam (k >= size) but the reported minimum / maximum are not the true ones", **kw)
        return
    if not r1:
        return                                   # pruned beam on a rank >= 2 tensor: validity only
    # rank 1, k < size
    if not mm_ok:
        if routine == "optima_qtt" and q_not_rank1:
            ctx.known("rank1-qtt-maxmod", f"rank-1 TT, quantised image not rank 1, k={k} < size={ref.size}: |y|="
                      f"{max(abs(y_min), abs(y_max))!r} < max|Y|={ref.mm!r}")
        ctx.check(False, f"{routine}: rank-1 tensor but the maximum-modulus element was missed", **kw)
    ctx.check(big_ok, f"{routine}: rank-1 tensor, the extremum on the maximum-modulus side is not exact", **kw)
    if not all_ok:
        # validity held (checked by the caller), max-modulus side exact, only the opposite side is sub-optimal
        ctx.known("rank1-opposite-side", f"{routine}: rank-1, k={k} < size={ref.size}, max-modulus side exact, opposite side "
                  f"sub-optimal: got (y_min, y_max) = ({y_min!r}, {y_max!r}), true ({ref.Fmin!r}, {ref.Fmax!r})")


def expected_rows(n, k, l2r):
    seq = n if l2r else n[::-1]
    c = seq[0]
    for m in seq[1:]:
        c = min(k, c * m)
    return c


def labels_for(ctx, ref, k, spec=None):
    if spec is not None:
        ctx.label(*gen.spec_labels(spec))
    ctx.label("k>=size" if k >= ref.size else ("k==1" if k == 1 else "1<k<size"))
    ctx.label("rank1" if ref.rank1 else "rank>=2")
    if ref.ties:
        ctx.label("ties")
    if ref.Fmax < 0:
        ctx.label("all_negative")
    if ref.Fmin > 0:
        ctx.label("all_positive")
    if ref.mm == 0:
        ctx.label("zero_tensor")
    if ref.Fmax - ref.Fmin <= 1e-6 * ref.mm and ref.mm > 0:
        ctx.label("nearly_constant")
    if ref.tiny and ref.mm > 0:
        ctx.label("tiny_scale_opp_unconstrained")
    two = sum(1 for m in ref.n if m >= 2) >= 2
    ctx.nontrivial(two and ((not ref.rank1) or ref.ties or k < ref.size))


# ------------------------------------------------------------------------------------------------ TT routines

def check_beam(ctx, Y, ref, k, l2r, ret_all=True):
    """optima_tt_beam in one sweep direction (single answer, optionally also the ret_all table)."""
    n, d = ref.n, ref.d
    full = k >= ref.size
    what = f"optima_tt_beam(l2r={l2r})"
    i = ctx.lib(teneva.optima_tt_beam, Y, k, l2r)
    ii = check_index(ctx, i, n, what)
    f = float(ref.F[ii])
    if full or ref.rank1:
        ctx.check(abs(f) >= ref.mm - ref.tau, f"{what}: " + ("full beam (k >= size)" if full else "rank-1 tensor") +
                  " but the returned index is not a maximum-modulus element", got=f, true_maxmod=ref.mm, tau=ref.tau,
                  index=list(ii), k=k, size=ref.size, shape=n)
    if not ret_all:
        return
    I = ctx.lib(teneva.optima_tt_beam, Y, k, l2r, True)
    ctx.check(isinstance(I, np.ndarray) and I.ndim == 2 and I.shape[1] == d and I.dtype.kind in "iu",
              f"{what}, ret_all: not a 2-D integer array with d columns", got=repr(getattr(I, "shape", None)))
    ctx.check(1 <= I.shape[0] <= k, f"{what}, ret_all: number of rows not in 1..k", rows=int(I.shape[0]), k=k)
    ctx.check(bool(np.all(I >= 0) and np.all(I < np.array(n)[None, :])), f"{what}, ret_all: index out of bounds")
    ctx.check(len({tuple(r) for r in I.tolist()}) == I.shape[0], f"{what}, ret_all: duplicate multi-indices", I=I.tolist()[:12])
    ctx.check(I[0].tolist() == list(ii), f"{what}: first row with ret_all differs from the single answer", a=I[0].tolist(), b=list(ii))
    if full:
        ctx.check(I.shape[0] == ref.size, f"{what}, ret_all: k >= size but not every multi-index is returned",
                  rows=int(I.shape[0]), size=ref.size)
    # the beam keeps k rows after every core whenever that many exist (mechanism of the anchor)
    ctx.check(I.shape[0] == expected_rows(n, k, l2r), f"{what}, ret_all: unexpected number of candidates",
              rows=int(I.shape[0]), expected=expected_rows(n, k, l2r))
    if full or ref.rank1:
        # nothing relevant is pruned -> the candidates are the entries of largest modulus, best first (rank 1: an
        # entry among the m largest has each of its prefixes among the m largest prefixes, so top-m is greedy too)
        vals = np.abs(ref.F[tuple(I.T)])
        ctx.check(bool(np.all(vals[:-1] >= vals[1:] - 2 * ref.tau)), f"{what}, ret_all: candidates are not ordered by decreasing modulus",
                  vals=vals.tolist()[:12], tau=ref.tau)
        best = np.sort(np.abs(ref.F).ravel())[::-1][:I.shape[0]]
        ctx.check(bool(np.all(np.sort(vals)[::-1] >= best - 2 * ref.tau)), f"{what}, ret_all: candidates are not the largest moduli",
                  vals=vals.tolist()[:12], best=best.tolist()[:12], tau=ref.tau, k=k)


def check_tt_max(ctx, Y, ref, k, exact):
    """optima_tt_max: best of both sweep directions."""
    n = ref.n
    full = k >= ref.size
    i, y = ctx.lib(teneva.optima_tt_max, Y, k)
    ii = check_index(ctx, i, n, "optima_tt_max")
    y = check_value(ctx, ref, ii, y, "optima_tt_max", exact)
    if full or ref.rank1:
        ctx.check(abs(y) >= ref.mm - ref.tau, "optima_tt_max: " + ("full beam (k >= size)" if full else "rank-1 tensor") +
                  " but the maximum-modulus element was missed", got=y, true_maxmod=ref.mm, tau=ref.tau, k=k, size=ref.size, shape=n)


def check_optima_tt(ctx, Y, ref, k, exact):
    """optima_tt: minimum and maximum."""
    n = ref.n
    out = ctx.lib(teneva.optima_tt, Y, k)
    ctx.check(isinstance(out, tuple) and len(out) == 4, "optima_tt: not a 4-tuple")
    i_min, y_min, i_max, y_max = out
    a = check_index(ctx, i_min, n, "optima_tt(i_min)")
    b = check_index(ctx, i_max, n, "optima_tt(i_max)")
    y_min = check_value(ctx, ref, a, y_min, "optima_tt(y_min)", exact)
    y_max = check_value(ctx, ref, b, y_max, "optima_tt(y_max)", exact)
    ctx.check(y_min <= y_max, "optima_tt: y_min > y_max", y_min=y_min, y_max=y_max)
    return y_min, y_max


def check_unmodified(ctx, Y, Y0):
    for G, G0 in zip(Y, Y0):
        ctx.check(np.array_equal(G, G0), "the input TT-cores were modified")


def run_tt(Y, k, ctx, exact, spec=None, ret_all=True, ref=None, do_tt=True):
    ref = Ref(Y) if ref is None else ref
    labels_for(ctx, ref, k, spec)
    Y0 = [G.copy() for G in Y]
    for l2r in (True, False):                              # beam, both directions
        check_beam(ctx, Y, ref, k, l2r, ret_all)
    check_tt_max(ctx, Y, ref, k, exact)                    # best of both directions
    if not do_tt:
        check_unmodified(ctx, Y, Y0)
        return ref
    y_min, y_max = check_optima_tt(ctx, Y, ref, k, exact)  # min and max
    check_unmodified(ctx, Y, Y0)
    check_pair(ctx, ref, y_min, y_max, k, "optima_tt")
    return ref


def draw_k(draw, size, kmode):
    if kmode == "full":
        return size + draw(st.integers(0, 3))
    if kmode == "one":
        return 1
    if kmode == "small":
        return draw(st.integers(1, 4))
    return draw(st.integers(1, size + 3))


def tt_sizes(tier):
    return dict(d_max=5, n_max=5, size_max=160, r_max=4, entries_max=600) if tier == "quick" else \
        dict(d_max=6, n_max=5, size_max=768, r_max=5, entries_max=1500)


@st.composite
def tt_cases(draw, tier):
    """General TT-tensors, emphasis on a full beam (exactness) and on pruned beams (validity)."""
    base = draw(gen.tt_specs(**tt_sizes(tier)))
    ys = {"base": base, "shift": draw(st.sampled_from(["none", "none", "none", "neg", "pos", "near"]))}
    if ys["shift"] == "near":
        ys["exp"] = draw(st.integers(3, 40))
        ys["sgn"] = draw(st.sampled_from([-1, 1]))
    size = int(np.prod(base["n"]))
    kmode = draw(st.sampled_from(["full", "full", "full", "any", "small", "one"]))
    return {"Y": ys, "k": draw_k(draw, size, kmode), "kmode": kmode}


def prop_tt(case, ctx):
    ys = case["Y"]
    Y = build(ys)
    ex = exact_ok(ys["base"]) and ys.get("shift", "none") == "none"
    ctx.label("shift:" + ys.get("shift", "none"))
    run_tt(Y, case["k"], ctx, ex, ys["base"])


@st.composite
def rank1_cases(draw, tier):
    """Rank-1 tensors, any k (greedy maximisation of a separable product), many with k < size."""
    kw = tt_sizes(tier)
    d = draw(st.integers(2, 6 if tier == "quick" else 7))
    lo = draw(st.sampled_from([1, 2, 2]))
    shape = gen._cap_shape([draw(st.integers(lo, 5)) for _ in range(d)], kw["size_max"])
    fams = ("smallint", "dyadic", "dyadic", "float", "float", "gauss", "gauss", "scaled", "zero", "explicit")
    base = draw(gen.tt_specs(shape=shape, rank_families=("rank1",), families=fams, **kw))
    size = int(np.prod(base["n"]))
    kmode = draw(st.sampled_from(["one", "small", "small", "any", "full"]))
    return {"Y": {"base": base, "shift": "none"}, "k": draw_k(draw, size, kmode), "kmode": kmode}


# ------------------------------------------------------------------------------------------------ wide dynamic range (spikes)

SPIKE_E10 = (3, 4, 5, 6, 7, 8, 8, 9, 9, 9, 10, 10, 10, 11, 11, 12)


def add_spikes(Y, spikes):
    """Y + sum_j amp_j * delta(p_j) by own block assembly, amp = sgn * mant * 10**e10.

    lay 'bal': |amp|**(1/d) in every core of the rank-1 block (the layout of teneva.delta; the product of the core norms of
    Y and of (Y - y1)^2 then stays close to the tensor norm, so tau and t of `Ref` are small multiples of eps*|amp| resp.
    eps*amp^2);  'front' / 'back': amp in the first / last core, unit entries elsewhere (badly balanced cores: valid input,
    the normwise bounds are then far from tight).
    """
    d = len(Y)
    for sp in spikes:
        amp = sp["sgn"] * sp["mant"] * 10.0 ** sp["e10"]
        Z = []
        for k, G in enumerate(Y):
            r1, m, r2 = G.shape
            if sp["lay"] == "bal":
                c = abs(amp) ** (1.0 / d) * (math.copysign(1.0, amp) if k == d - 1 else 1.0)
            elif sp["lay"] == "front":
                c = amp if k == 0 else 1.0
            else:
                c = amp if k == d - 1 else 1.0
            v = np.zeros((1, m, 1))
            v[0, sp["p"][k], 0] = c
            if k == 0:
                H = np.concatenate([G, v], axis=2)
            elif k == d - 1:
                H = np.concatenate([G, v], axis=0)
            else:
                H = np.zeros((r1 + 1, m, r2 + 1))
                H[:r1, :, :r2] = G
                H[r1:, :, r2:] = v
            Z.append(H)
        Y = Z
    return Y


@st.composite
def spike_cases(draw, tier):
    """Base tensor of order one plus one or two isolated entries of modulus 1e3..1e12 (all times 2**g in every core), full beam."""
    d = draw(st.sampled_from([2, 2, 3, 3, 4]))
    lo = draw(st.sampled_from([1, 2, 2, 2]))
    n = gen._cap_shape([draw(st.integers(lo, 5 if d == 2 else 4)) for _ in range(d)], 64 if tier == "quick" else 256)
    base = draw(gen.tt_specs(shape=n, r_max=3, families=("gauss", "gauss", "float", "dyadic", "smallint"),
                             rank_families=("rank1", "uniform", "ragged"), entries_max=300))
    spikes = []
    for _ in range(draw(st.sampled_from([1, 1, 1, 2]))):
        spikes.append({"p": [draw(st.integers(0, m - 1)) for m in n], "sgn": draw(st.sampled_from([-1, 1])),
                       "e10": draw(st.sampled_from(SPIKE_E10)), "mant": draw(st.sampled_from([1.0, 1.0, 2.5, 7.0])),
                       "lay": draw(st.sampled_from(["bal", "bal", "bal", "front", "back"]))})
    size = int(np.prod(n))
    kmode = draw(st.sampled_from(["full", "full", "full", "full", "full", "any"]))
    return {"Y": base, "spikes": spikes, "g": draw(st.sampled_from([0, 0, 0, -8, -3, 2, 6])), "k": draw_k(draw, size, kmode),
            "kmode": kmode}


def prop_spike(case, ctx):
    base = gen.build_tt(case["Y"])
    Y = [G * 2.0 ** case["g"] for G in add_spikes(base, case["spikes"])]      # global scale 2**(g*d), balanced over the cores
    base = [G * 2.0 ** case["g"] for G in base]
    ref = run_tt(Y, case["k"], ctx, False, case["Y"], ret_all=True)
    Fb = dense(base)
    spread = float(Fb.max() - Fb.min())
    amp = max(sp["mant"] * 10.0 ** sp["e10"] for sp in case["spikes"]) * 2.0 ** (case["g"] * len(base))
    ctx.label(f"spikes=={len(case['spikes'])}", *("lay:" + sp["lay"] for sp in case["spikes"]))
    if spread > 0:
        ctx.label("amp/spread:1e%d" % int(math.floor(math.log10(amp / spread))))
        if case["k"] >= ref.size:
            # where the check has teeth: the admitted error of the opposite-side extremum against the spread of the base entries
            ctx.label("tol_opp/spread:" + ("<=1e-3" if ref.tol_opp <= 1e-3 * spread else "<=1e-1" if ref.tol_opp <= 0.1 * spread
                                           else "<=1" if ref.tol_opp <= spread else ">1"))


# ------------------------------------------------------------------------------------------------ extreme global / per-core scales

X10_FAR = (-250, -245, -240, -230, -220, -210, -200, -180, -150, -140, -135, -130, -125, -120, -115, -110, -105, -100, -80, -40,
           40, 80, 100, 105, 110, 115, 120, 125, 130, 135, 140, 150, 180, 200, 210, 220, 230, 240, 245, 250)
BITS_PER_DECADE = math.log2(10.0)
TT_MAX_BITS = 960        # optima_tt_beam / optima_tt_max: every partial product of cores within 2**+-960 (10**+-250 times the
                         # own magnitude of the order-one base cores, <= 2**+-22 per core)
OPTIMA_TT_BITS = 470     # optima_tt squares the shifted tensor core by core: 2**+-470 (~1e+-141), measured exact up to 1e+-150


@st.composite
def scaled_cases(draw, tier):
    """Order-one tensor times 10**x or 2**x, |x| up to 250 decades, the factor spread over the cores in several ways."""
    kw = tt_sizes(tier)
    d = draw(st.sampled_from([2, 3, 3, 4, 4, 5, 5]))
    lo = draw(st.sampled_from([1, 2, 2, 2]))
    n = gen._cap_shape([draw(st.integers(lo, 5)) for _ in range(d)], 120 if tier == "quick" else 400)
    rf = draw(st.sampled_from([("rank1",), ("uniform", "ragged"), ("uniform", "ragged", "over_ranked")]))
    base = draw(gen.tt_specs(shape=n, r_max=3, families=("gauss", "gauss", "float", "dyadic", "smallint", "explicit"),
                             rank_families=rf, entries_max=400))
    kind = draw(st.sampled_from(["pow10", "pow10", "pow2"]))
    lay = draw(st.sampled_from(["bal", "bal", "bal", "front", "back", "back", "one", "percore", "percore"]))
    x = draw(st.one_of(st.sampled_from(X10_FAR), st.sampled_from(X10_FAR), st.integers(-250, 250)))
    unit = 1.0 if kind == "pow10" else BITS_PER_DECADE
    sc = {"kind": kind, "lay": lay, "x": int(round(x * unit))}
    if lay == "one":
        sc["j"] = draw(st.integers(0, d - 1))
    if lay == "percore":
        # prefix sums of the per-core exponents inside a window of width |x| containing 0 and ending at x: every
        # contiguous partial product of cores stays within 10**+-|x| (construction, not rejection)
        w = abs(x)
        a = draw(st.integers(0, w)) if x >= 0 else draw(st.integers(-w, 0))
        lo_w, hi_w = (a - w, a) if x >= 0 else (a, a + w)
        lo_w, hi_w = min(lo_w, 0, x), max(hi_w, 0, x)
        if hi_w - lo_w > w:                         # keep the width: the window must hold 0 and x, which are |x| apart
            lo_w, hi_w = min(0, x), max(0, x)
        P = [0] + [draw(st.integers(lo_w, hi_w)) for _ in range(d - 1)] + [x]
        sc["e"] = [int(round((P[j + 1] - P[j]) * unit)) for j in range(d)]
    ys = {"base": base, "shift": draw(st.sampled_from(["none", "none", "none", "neg", "pos"]))}
    size = int(np.prod(n))
    kmode = draw(st.sampled_from(["full", "full", "full", "any", "small", "one"]))
    return {"Y": ys, "sc": sc, "k": draw_k(draw, size, kmode), "kmode": kmode}


def apply_scale(Y, sc, layout="C"):
    """Multiply the tensor by 10**x (float factors) or 2**x (exact), the factor balanced over the cores / in one core / per core."""
    d, kind, lay, x = len(Y), sc["kind"], sc["lay"], sc["x"]
    if lay == "percore":
        ex = sc["e"]
    elif lay == "bal":
        ex = None
    else:
        j = {"front": 0, "back": d - 1}.get(lay, sc.get("j", 0))
        ex = [x if k == j else 0 for k in range(d)]
    if kind == "pow2":
        if ex is None:
            ex = [x // d + (1 if k < x % d else 0) for k in range(d)]
        Z = [np.ldexp(np.asarray(G, dtype=float), int(e)) for G, e in zip(Y, ex)]
    elif ex is None:
        f = 10.0 ** (x / d)
        Z = [G * f for G in Y]
    else:
        Z = [G * 10.0 ** e for G, e in zip(Y, ex)]
    return [gen.relayout(G, layout) for G in Z] if layout != "C" else Z


def prop_scaled(case, ctx):
    ys, sc = case["Y"], case["sc"]
    Y = apply_scale(build(ys), sc, ys["base"].get("layout", "C"))
    ref = ScaledRef(Y)
    sp = spread_bits(ref.e, [not np.any(G) for G in Y])
    # generator invariants (by construction): finite cores, exact power-of-two split, every partial product representable
    assert all(np.all(np.isfinite(G)) for G in Y) and ref.exact_split and sp <= TT_MAX_BITS, (sp, ref.e)
    do_tt = sp <= OPTIMA_TT_BITS
    ex = exact_ok(ys["base"]) and ys.get("shift", "none") == "none" and sc["kind"] == "pow2"
    x10 = ref.E / BITS_PER_DECADE
    ctx.label("shift:" + ys.get("shift", "none"), "kind:" + sc["kind"], "lay:" + sc["lay"], "scale:1e%+d" % (50 * int(round(x10 / 50))),
              "optima_tt:" + ("called" if do_tt else "out_of_domain"), "spread:2^%d" % (100 * int(math.ceil(sp / 100))))
    if do_tt and case["k"] >= ref.size and ref.Fmax > ref.Fmin:
        # where the opposite-side claim has teeth (balanced cores at huge scales, scale in the last core at tiny scales)
        D = ref.Fmax - ref.Fmin
        ctx.label("tol_opp/spread:" + ("<=1e-3" if ref.tol_opp <= 1e-3 * D else "<=1" if ref.tol_opp <= D else ">1"))
    run_tt(Y, case["k"], ctx, ex, ys["base"], ret_all=True, ref=ref, do_tt=do_tt)
    if abs(x10) < 90:
        ctx.nt = False                               # ordinary scales are the business of the other sub-checks


# ------------------------------------------------------------------------------------------------ call histories on one list object

HIST_ROUTINES = ("beam_l2r", "beam_r2l", "beam_l2r_all", "beam_r2l_all", "tt_max", "tt_max", "optima_tt")
FILL_MODES_ANY = ("setitem", "slice", "clear_extend", "inplace", "inplace", "inplace_newlist")
FILL_MODES_LIST = ("setitem", "slice", "clear_extend")


@st.composite
def sibling_specs(draw, n, r, families):
    """Another tensor with the same mode sizes AND ranks (so that cores can be overwritten in place, one by one)."""
    fam = draw(st.sampled_from([f for f in families if f != "explicit"]))
    spec = {"n": list(n), "r": list(r), "fam": fam, "rfam": "sibling", "seed": draw(gen.seeds)}
    lay = draw(st.sampled_from(["C", "C", "C", "F", "N"]))
    if lay != "C":
        spec["layout"] = lay
    if fam == "scaled":
        spec["exp"] = [draw(st.integers(-30, 30)) for _ in n]
    if fam in ("rank_deficient", "zero"):
        spec["k"] = draw(st.integers(0, len(n) - 1))
        spec["mode"] = draw(st.integers(0, 3))
    return spec


@st.composite
def history_cases(draw, tier):
    """One list object, refilled between the searches: [calls on T0] fill(T1) [calls] (fill(T2) [calls])."""
    big = tier != "quick"
    if draw(st.integers(0, 3)) == 0:                 # power-of-two shape: optima_qtt joins the routines
        q = draw(st.integers(1, 2))
        d = draw(st.integers(2, {1: 5, 2: 3}[q]))
        kw = dict(shape=[2 ** q] * d, r_max=3, families=QTT_FAMILIES, entries_max=400)
        routines = HIST_ROUTINES + ("optima_qtt", "optima_qtt")
    else:
        q = 0
        kw = dict(d_max=5 if big else 4, n_max=5 if big else 4, size_max=256 if big else 81, r_max=4 if big else 3,
                  entries_max=600 if big else 300)
        routines = HIST_ROUTINES
    rf = draw(st.sampled_from([("rank1",), gen.RANK_FAMILIES, gen.RANK_FAMILIES]))
    first = draw(gen.tt_specs(rank_families=rf, **kw))
    n, size = first["n"], int(np.prod(first["n"]))
    same = draw(st.integers(0, 3)) != 0              # all tensors share the ranks -> in-place and partial refills are possible
    fams = kw.get("families", gen.FAMILIES)
    T, rounds = [first], []
    k_main = draw_k(draw, size, draw(st.sampled_from(["full", "full", "full", "any", "small", "one"])))
    for j in range(draw(st.integers(2, 3))):
        rnd = {"calls": []}
        if j > 0:
            if same:
                T.append(draw(sibling_specs(n, first["r"], fams)))
                mode = draw(st.sampled_from(FILL_MODES_ANY))
                mask = [True] * len(n)
                if mode not in ("slice", "clear_extend") and draw(st.integers(0, 2)) == 0:      # only some cores change
                    mask = [draw(st.booleans()) for _ in n]
                    mask[draw(st.integers(0, len(n) - 1))] = True
            else:
                T.append(draw(gen.tt_specs(**{**kw, "shape": n, "rank_families": rf})))
                mode, mask = draw(st.sampled_from(FILL_MODES_LIST)), [True] * len(n)
            rnd["fill"] = {"src": j, "mode": mode, "mask": mask}
        for _ in range(draw(st.integers(1, 3))):
            km = draw(st.sampled_from(["main", "main", "main", "full", "any", "one"]))
            rnd["calls"].append([draw(st.sampled_from(routines)), k_main if km == "main" else draw_k(draw, size, km)])
        rounds.append(rnd)
    return {"T": T, "rounds": rounds, "q": q}


def refill(Y, src, mode, mask):
    """Put the cores `src` (arrays not used for anything else) into the list object Y; returns the list the caller goes on with."""
    d = len(src)
    if mode == "slice":
        Y[:] = list(src)
    elif mode == "clear_extend":
        Y.clear()
        Y.extend(src)
    elif mode == "setitem":
        for j in range(d):
            if mask[j]:
                Y[j] = src[j]
    else:                                             # the arrays themselves are reused
        for j in range(d):
            if mask[j]:
                Y[j][...] = src[j]
        if mode == "inplace_newlist":
            return list(Y)                            # new list object holding the same (overwritten) arrays
    return Y


def prop_history(case, ctx):
    T = [build({"base": sp, "shift": "none"}) for sp in case["T"]]
    q, d = case["q"], len(case["T"][0]["n"])
    Y = list(T[0])
    exact = exact_ok(case["T"][0])
    ref = Ref(Y)
    ctx.label(*gen.spec_labels(case["T"][0]))
    ctx.label("pow2_shape" if q else "general_shape", "rank1" if ref.rank1 else "rank>=2")
    pending, teeth, refills = None, False, 0
    for rnd in case["rounds"]:
        f = rnd.get("fill")
        if f is not None:
            before = [np.array(G) for G in Y]
            Y = refill(Y, T[f["src"]], f["mode"], f["mask"])
            exact = exact_ok(case["T"][f["src"]]) and (exact or all(f["mask"]))
            ref = Ref([np.array(G) for G in Y])
            changed = any(G.shape != H.shape or not np.array_equal(G, H) for G, H in zip(Y, before))
            refills += changed
            ctx.label("fill:" + f["mode"], "fill:all_cores" if all(f["mask"]) else "fill:some_cores")
        for routine, k in rnd["calls"]:
            ctx.inner(1)
            Y0 = [np.array(G) for G in Y]
            try:
                if routine.startswith("beam"):
                    check_beam(ctx, Y, ref, k, "l2r" in routine, routine.endswith("_all"))
                elif routine == "tt_max":
                    check_tt_max(ctx, Y, ref, k, exact)
                elif routine == "optima_tt":
                    y_min, y_max = check_optima_tt(ctx, Y, ref, k, exact)
                    check_unmodified(ctx, Y, Y0)
                    check_pair(ctx, ref, y_min, y_max, k, "optima_tt")
                else:
                    run_qtt(ctx, Y, k, q, d, exact, qsep=False, labels=False)
            except harness.core.KnownFinding as e:       # an open finding does not end the history: a later call may still fail
                pending = pending or e
            check_unmodified(ctx, Y, Y0)
            if refills and (k >= ref.size or ref.rank1):
                teeth = True
            ctx.label("after_refill:" + routine if refills else "first:" + routine)
    ctx.nontrivial(teeth and sum(1 for m in ref.n if m >= 2) >= 2)
    if pending is not None:
        raise pending


# ------------------------------------------------------------------------------------------------ exhaustive small tensors

VALS = (-2, -1, 0, 1, 2)


def small_cases(tier, shard, nshards):
    j = 0
    # rank 1, shapes [2,2] and [2,3], entries in -2..2, every k in 1..size+1
    for n in ([2, 2], [2, 3], [3, 2]):
        size = n[0] * n[1]
        for c0 in itertools.product(VALS, repeat=n[0]):
            for c1 in itertools.product(VALS, repeat=n[1]):
                if tier == "quick" and n != [2, 2] and (hash_small(c0, c1) % 16):
                    continue                 # quick tier: a fixed 1/16 subset of the two larger shapes
                for k in range(1, size + 2):
                    if j % nshards == shard:
                        yield {"n": n, "r": [1, 1, 1], "cores": [list(c0), list(c1)], "k": k}
                    j += 1
    # rank 2, shape [2,2], entries in -1..1, pruned (k=1,2) and full beam (k=4)
    for c0 in itertools.product((-1, 0, 1), repeat=4):
        for c1 in itertools.product((-1, 0, 1), repeat=4):
            if tier == "quick" and (hash_small(c0, c1) % 3):
                continue                     # quick tier: a fixed 1/3 subset, full beam only
            for k in ((4,) if tier == "quick" else (1, 2, 4, 5)):
                if j % nshards == shard:
                    yield {"n": [2, 2], "r": [1, 2, 1], "cores": [list(c0), list(c1)], "k": k}
                j += 1


def hash_small(c0, c1):
    h = 0
    for v in tuple(c0) + tuple(c1):
        h = h * 7 + (v + 3)
    return h


def prop_small(case, ctx):
    n, r = case["n"], case["r"]
    Y = [np.array(case["cores"][k], dtype=float).reshape(r[k], n[k], r[k + 1]) for k in range(len(n))]
    ctx.label(f"shape:{n}", f"rank:{max(r)}")
    run_tt(Y, case["k"], ctx, True)


# ------------------------------------------------------------------------------------------------ quantised variant

def qtt_to_tt_dense(Fq, d, q):
    """Dense QTT array (d*q binary axes, least significant bit of every block first) -> array of shape [2^q]*d."""
    perm = []
    for k in range(d):
        perm.extend(range(k * q + q - 1, k * q - 1, -1))
    return np.transpose(Fq.reshape((2,) * (d * q)), perm).reshape((2 ** q,) * d)


def own_ind_qtt_to_tt(iq, d, q):
    return [sum(int(iq[k * q + j]) << j for j in range(q)) for k in range(d)]


def build_qsep(spec):
    """Rank-1 TT of shape [2^q]*d whose mode vectors are Kronecker products of q 2-vectors: rank 1 after quantisation."""
    d, q, fam = spec["d"], spec["q"], spec["fam"]
    rng = np.random.default_rng(spec["seed"])
    Y = []
    for _ in range(d):
        v = np.ones(1)
        for j in range(q):
            if fam == "smallint":
                a = rng.integers(-3, 4, size=2).astype(float)
            elif fam == "dyadic":
                a = rng.integers(-16, 17, size=2) / 8.0
            elif fam == "float":
                a = rng.uniform(-4, 4, size=2)
            else:
                a = rng.normal(size=2)
            v = np.kron(a, v)           # bit j becomes more significant than bits 0..j-1
        Y.append(v.reshape(1, -1, 1))
    return Y


QTT_FAMILIES = ("smallint", "dyadic", "float", "gauss", "rank_deficient", "zero", "explicit")


@st.composite
def qtt_cases(draw, tier):
    q = draw(st.integers(1, 3))
    d_max = {1: 6, 2: 4, 3: 3}[q] if tier == "quick" else {1: 8, 2: 5, 3: 3}[q]
    d = draw(st.integers(2, d_max))
    kind = draw(st.sampled_from(["general", "general", "general", "rank1", "rank1", "qsep", "qsep", "spike"]))
    size = 2 ** (q * d)
    kmode = draw(st.sampled_from(["full", "full", "any", "small", "one"])) if kind != "spike" else "full"
    case = {"q": q, "d": d, "kind": kind, "k": draw_k(draw, size, kmode), "kmode": kmode}
    if kind == "qsep":
        case["Y"] = {"d": d, "q": q, "fam": draw(st.sampled_from(["smallint", "dyadic", "float", "gauss"])), "seed": draw(gen.seeds)}
    elif kind == "spike":
        # wide dynamic range (see spike_cases): base of order one + one isolated entry, balanced layout, full beam
        case["Y"] = draw(gen.tt_specs(shape=[2 ** q] * d, r_max=2, families=("gauss", "float", "dyadic"),
                                      rank_families=("rank1", "uniform", "ragged"), entries_max=300))
        case["spikes"] = [{"p": [draw(st.integers(0, 2 ** q - 1)) for _ in range(d)], "sgn": draw(st.sampled_from([-1, 1])),
                           "e10": draw(st.sampled_from(SPIKE_E10)), "mant": draw(st.sampled_from([1.0, 2.5, 7.0])), "lay": "bal"}]
    else:
        rf = ("rank1",) if kind == "rank1" else ("uniform", "ragged", "over_ranked", "rank1")
        case["Y"] = draw(gen.tt_specs(shape=[2 ** q] * d, r_max=3, families=QTT_FAMILIES, rank_families=rf, entries_max=600))
    m = draw(st.integers(1, 5))
    case["Iq"] = [[draw(st.integers(0, 1)) for _ in range(q * d)] for _ in range(m)]
    return case


def check_ind_qtt_to_tt(ctx, Iq, d, q):
    """Index mapping (grid.ind_qtt_to_tt): single (list / array) and batch spelling against the bit formula."""
    want = [own_ind_qtt_to_tt(iq, d, q) for iq in Iq]
    got = ctx.lib(teneva.ind_qtt_to_tt, np.array(Iq, dtype=int), q)
    ctx.check(isinstance(got, np.ndarray) and got.shape == (len(Iq), d) and got.dtype.kind in "iu" and got.tolist() == want,
              "ind_qtt_to_tt(batch) differs from the bit formula", got=np.asarray(got).tolist(), want=want, Iq=Iq, q=q)
    got = ctx.lib(teneva.ind_qtt_to_tt, Iq[0], q)
    ctx.check(isinstance(got, np.ndarray) and got.shape == (d,) and got.tolist() == want[0],
              "ind_qtt_to_tt(single list) differs from the bit formula", got=np.asarray(got).tolist(), want=want[0], q=q)
    got = ctx.lib(teneva.ind_qtt_to_tt, np.array(Iq[0], dtype=int), q)
    ctx.check(isinstance(got, np.ndarray) and got.shape == (d,) and got.tolist() == want[0],
              "ind_qtt_to_tt(single array) differs from the bit formula", got=np.asarray(got).tolist(), want=want[0], q=q)


def run_qtt(ctx, Y, k, q, d, ex, qsep=False, labels=True, diff=True):
    """optima_qtt on the TT-tensor Y of shape [2^q]*d (qsep: rank 1 after quantisation by construction).
    diff=False skips the second search of the QTT image (sub-check `qtt_big`, full beam over 2^18 elements: the dense oracle is complete)."""
    n = [2 ** q] * d
    Y0 = [G.copy() for G in Y]

    # the tensor that is actually searched, its distance to Y (measured, capped by an a-priori bound)
    Zq = ctx.lib(teneva.tt_to_qtt, Y, 1.E-12, 100)
    ctx.check(isinstance(Zq, list) and len(Zq) == d * q and all(G.ndim == 3 and G.shape[1] == 2 for G in Zq),
              "tt_to_qtt: not a list of d*q cores of mode size 2")
    F = dense(Y)
    Fq = qtt_to_tt_dense(dense(Zq), d, q)
    nf, P = prodnorm(Y)
    if P > 0:
        cap = sum(q * (1e-12 * P / f + 64 * math.sqrt(EPS) * P) for f in nf)
    else:
        cap = 1e-12
    delta = float(np.max(np.abs(Fq - F)))
    if not np.isfinite(delta) or delta > cap:
        ctx.label("qtt_delta_capped")
        delta = cap
    qranks = [G.shape[2] for G in Zq]
    q_not_rank1 = max(qranks) >= 2
    r1_in = is_rank1(Y)
    # tolerances: the beam runs on Zq; a QTT image that is rank 1 only up to delta-sized junk gets the junk added
    ref = Ref(Y, extra_delta=delta, search=Zq, relative=False)
    if r1_in and (qsep or q == 1):
        # rank 1 by construction after quantisation (up to junk of size delta in spurious rank directions, which can
        # flip a greedy choice between prefixes whose sub-tensor norms differ by < delta*sqrt(size), q*d times)
        ref_r1 = Ref(Y, extra_delta=delta * (1 + q * d * math.sqrt(F.size)), search=Zq, relative=True)
    if labels:
        labels_for(ctx, ref, k)
        if r1_in:
            ctx.label("qtt_image_rank1" if not q_not_rank1 else "qtt_image_not_rank1")

    out = ctx.lib(teneva.optima_qtt, Y, k)
    ctx.check(isinstance(out, tuple) and len(out) == 4, "optima_qtt: not a 4-tuple")
    i_min, y_min, i_max, y_max = out
    a = check_index(ctx, i_min, n, "optima_qtt(i_min)")
    b = check_index(ctx, i_max, n, "optima_qtt(i_max)")
    y_min = check_value(ctx, ref, a, y_min, "optima_qtt(y_min)", ex)
    y_max = check_value(ctx, ref, b, y_max, "optima_qtt(y_max)", ex)
    ctx.check(y_min <= y_max, "optima_qtt: y_min > y_max", y_min=y_min, y_max=y_max)
    check_unmodified(ctx, Y, Y0)

    # "transformed into the QTT-format and then optima_tt is applied": the indices are those of the QTT search, mapped back
    if diff:
        jm, _, jM, _ = ctx.lib(teneva.optima_tt, Zq, k)
        ctx.check(own_ind_qtt_to_tt(jm, d, q) == list(a) and own_ind_qtt_to_tt(jM, d, q) == list(b),
                  "optima_qtt: indices are not the optima_tt indices of the QTT image mapped back to TT indices",
                  qtt_min=np.asarray(jm).tolist(), qtt_max=np.asarray(jM).tolist(), tt_min=list(a), tt_max=list(b), q=q)

    if k >= ref.size or not r1_in:
        check_pair(ctx, ref, y_min, y_max, k, "optima_qtt", rank1_input=False)
    elif qsep or q == 1:
        check_pair(ctx, ref_r1, y_min, y_max, k, "optima_qtt", q_not_rank1=False, rank1_input=True)
    else:
        check_pair(ctx, ref, y_min, y_max, k, "optima_qtt", q_not_rank1=(q >= 2 and q_not_rank1), rank1_input=True)


def prop_qtt(case, ctx):
    q, d, k, kind = case["q"], case["d"], case["k"], case["kind"]
    if kind == "qsep":
        Y = build_qsep(case["Y"])
        ex = case["Y"]["fam"] == "smallint"
    else:
        Y = gen.build_tt(case["Y"])
        ex = exact_ok(case["Y"])
        ctx.label(*gen.spec_labels(case["Y"]))
        if kind == "spike":
            Y, ex = add_spikes(Y, case["spikes"]), False
    ctx.label(f"q=={q}", "kind:" + kind)
    check_ind_qtt_to_tt(ctx, case["Iq"], d, q)
    run_qtt(ctx, Y, k, q, d, ex, qsep=(kind == "qsep"))


# ------------------------------------------------------------------------------------------------ quantised variant, unequal modes

@st.composite
def qtt_shape_cases(draw, tier):
    """optima_qtt on power-of-two mode sizes that are NOT all equal (documented: unsupported -> ValueError)."""
    d = draw(st.sampled_from([2, 2, 3, 3, 3, 3] if tier == "quick" else [2, 3, 3, 3, 4, 5]))
    qs = [draw(st.integers(1, 3)) for _ in range(d)]
    pat = draw(st.sampled_from(["free", "ends_equal", "ends_equal", "head_equal", "tail_equal"]))
    if pat == "ends_equal":
        qs[-1] = qs[0]
    elif pat == "head_equal":
        qs[:-1] = [qs[0]] * (d - 1)
    elif pat == "tail_equal":
        qs[1:] = [qs[-1]] * (d - 1)
    if len(set(qs)) == 1:                            # not all equal, by construction
        j = draw(st.integers(1, d - 2)) if (pat == "ends_equal" and d >= 3) else draw(st.integers(0, d - 1))
        qs[j] = draw(st.sampled_from([q for q in (1, 2, 3) if q != qs[j]]))
    n = [2 ** q for q in qs]
    spec = draw(gen.tt_specs(shape=n, r_max=3, families=QTT_FAMILIES, entries_max=600))
    size = int(np.prod(n))
    kmode = draw(st.sampled_from(["full", "full", "any", "small", "one"]))
    return {"Y": spec, "k": draw_k(draw, size, kmode), "kmode": kmode, "default_k": draw(st.integers(0, 4)) == 0}


def prop_qtt_shapes(case, ctx):
    Y = gen.build_tt(case["Y"])
    n, k = case["Y"]["n"], case["k"]
    Y0 = [G.copy() for G in Y]
    ctx.label(f"shape:{n}", f"d=={len(n)}", "ends_equal" if n[0] == n[-1] else "ends_differ", *gen.spec_labels(case["Y"]))
    ctx.nontrivial(True)
    args = (Y,) if case["default_k"] else (Y, k)
    try:
        out = teneva.optima_qtt(*args)
    except ValueError:
        ctx.label("outcome:ValueError")              # the documented outcome for unequal mode sizes
        check_unmodified(ctx, Y, Y0)
        return
    except Exception as e:  # noqa: BLE001
        ctx.check(False, f"optima_qtt on unequal power-of-two mode sizes raised {type(e).__name__} (documented: ValueError)",
                  shape=n, error=str(e)[:200])
    # it answered: the validity clause of the property holds for every returned answer
    ctx.label("outcome:returned")
    ref = Ref(Y)
    ctx.check(isinstance(out, tuple) and len(out) == 4, "optima_qtt: not a 4-tuple", shape=n)
    i_min, y_min, i_max, y_max = out
    a = check_index(ctx, i_min, n, f"optima_qtt(i_min), shape {n}")
    b = check_index(ctx, i_max, n, f"optima_qtt(i_max), shape {n}")
    y_min = check_value(ctx, ref, a, y_min, f"optima_qtt(y_min), shape {n}", False)
    y_max = check_value(ctx, ref, b, y_max, f"optima_qtt(y_max), shape {n}", False)
    ctx.check(y_min <= y_max, "optima_qtt: y_min > y_max", y_min=y_min, y_max=y_max, shape=n)
    check_unmodified(ctx, Y, Y0)


# ------------------------------------------------------------------------------------------------ quantised variant, LARGE modes

BIG_Q = (9, 9, 9, 10, 10, 11, 12)
BIG_K = (1, 1, 2, 3, 5, 10, 30, 100)
BIG_POS = ("last", "last", "b256", "top", "top", "hi_only", "ge256", "ge256", "tail", "edge", "any")
BIG_KINDS = ("qsep",) * 4 + ("dominant",) * 3 + ("qsum",) * 3
BIG_AMPS = (3.0, 4.0, 10.0, 30.0, 100.0)
BIG_DYADIC = (0.125, 0.25, 0.5, 0.75, 0.875)


@st.composite
def big_index(draw, q):
    """One index of a mode of size n = 2^q >= 512, emphasis on what index arithmetic in a narrow type / on the low byte gets wrong."""
    n = 2 ** q
    cls = draw(st.sampled_from(BIG_POS))
    if cls == "last":
        return n - 1                                             # all bits set
    if cls == "b256":
        return 256                                               # bit 8 alone
    if cls == "top":
        return (n >> 1) + draw(st.integers(0, (n >> 1) - 1))     # most significant bit set
    if cls == "hi_only":
        return draw(st.integers(1, (n >> 8) - 1)) << 8           # low byte zero
    if cls == "ge256":
        return draw(st.integers(256, n - 1))
    if cls == "tail":
        return n - 1 - draw(st.integers(0, 255))
    if cls == "edge":
        return draw(st.sampled_from([v for v in (255, 256, 257, 511, 512, n - 2, n - 256, n - 257) if 0 <= v < n]))
    return draw(st.integers(0, n - 1))                           # anywhere (includes the control positions < 256)


@st.composite
def qtt_big_cases(draw, tier):
    """optima_qtt on shapes [2^q]*d with q = 9..12 (mode sizes 512..4096), the optimum position known by construction."""
    kind = draw(st.sampled_from(BIG_KINDS))
    if 500 <= draw(st.integers(0, 999)) < 520:                   # ~2 % of the cases (a full beam over 2^18 elements takes 2..3 s)
        kind = "full"
    if kind == "full":
        q, d = 9, 2                                              # 2^18 elements: the smallest shape with modes > 256
    else:
        q = draw(st.sampled_from(BIG_Q))
        d = draw(st.sampled_from([2, 2, 3]))
    term = lambda: {"p": [draw(big_index(q)) for _ in range(d)], "ties": draw(st.sampled_from([0, 0, 0, 0, 1, 2])),
                    "zeros": draw(st.sampled_from([0, 0, 0, 0, 0, 1]))}
    nterms = {"qsep": 1, "dominant": 1, "qsum": draw(st.integers(2, 3)), "full": draw(st.integers(1, 2))}[kind]
    case = {"q": q, "d": d, "kind": kind, "fam": draw(st.sampled_from(["float", "float", "dyadic"])), "seed": draw(gen.seeds),
            "terms": [term() for _ in range(nterms)]}
    if kind == "dominant" or (kind == "full" and draw(st.booleans())):
        case["spike"] = {"p": [draw(big_index(q)) for _ in range(d)], "sgn": draw(st.sampled_from([-1, 1])),
                         "amp": draw(st.sampled_from(BIG_AMPS if kind == "dominant" else BIG_AMPS[:3]))}
    case["k"] = 2 ** (q * d) + draw(st.integers(0, 3)) if kind == "full" else draw(st.sampled_from(BIG_K))
    # the index map alone, also for longer bit strings and one mode
    q2 = draw(st.sampled_from([9, 10, 12, 16, 17, 24, 30]))
    case["I2"] = {"q": q2, "rows": [[draw(big_index(q2)) for _ in range(d2)] for d2 in [draw(st.integers(1, 3))] for _ in range(draw(st.integers(1, 3)))]}
    case["I1"] = [[draw(big_index(q)) for _ in range(d)] for _ in range(draw(st.integers(0, 2)))]
    return case


def big_vector(rng, q, p, fam, ties, zeros):
    """Kronecker-separable vector of length 2^q: bit j (weight 2^j) carries the 2-vector a_j whose entry of larger modulus sits at
    bit j of p, the other one is rho_j times it, |rho_j| in [0.05, 0.95] (dyadic: 1/8..7/8); `ties` bits get |rho| = 1, `zeros`
    bits rho = 0.  -> (vector, max |rho| < 1): max|v| = |v[p]|, every entry that is not of maximum modulus is <= max|rho|*max|v|."""
    special = [int(j) for j in rng.permutation(q)[:ties + zeros]]
    v, rmax = np.ones(1), 0.0
    for j in range(q):
        if fam == "dyadic":
            big, rho = float(rng.integers(4, 17)) / 8.0, float(BIG_DYADIC[int(rng.integers(0, len(BIG_DYADIC)))])
        else:
            big, rho = float(rng.uniform(0.5, 2.0)), float(rng.uniform(0.05, 0.95))
        if j in special[:ties]:
            rho = 1.0
        elif j in special[ties:]:
            rho = 0.0
        else:
            rmax = max(rmax, rho)
        big *= float(rng.choice([-1.0, 1.0]))
        small = big * rho * float(rng.choice([-1.0, 1.0]))
        a = np.array([small, big]) if (p >> j) & 1 else np.array([big, small])
        v = np.kron(a, v)                                   # bit j becomes more significant than bits 0..j-1
    return v, rmax


def build_big(case):
    """-> (cores, per-term mode vectors, max |rho| < 1 over all bits)."""
    q, d, kind = case["q"], case["d"], case["kind"]
    n = [2 ** q] * d
    rng = np.random.default_rng(case["seed"])
    terms, rmax = [], 0.0
    for t in case["terms"]:
        vecs = []
        for k in range(d):
            v, r = big_vector(rng, q, t["p"][k], case["fam"], t["ties"], t["zeros"])
            if kind == "dominant":
                v = v / float(np.linalg.norm(v))            # background of unit Frobenius norm
            vecs.append(v)
            rmax = max(rmax, r)
        coef = 1.0 if kind in ("qsep", "dominant") else float(rng.uniform(0.5, 2.0)) * float(rng.choice([-1.0, 1.0]))
        terms.append((coef, vecs))
    if kind == "qsep":
        return [v.reshape(1, -1, 1) for v in terms[0][1]], terms, rmax
    all_terms = list(terms)
    sp = case.get("spike")
    if sp is not None:
        all_terms.append((sp["sgn"] * sp["amp"], [np.eye(1, n[j], sp["p"][j])[0] for j in range(d)]))
    if len(all_terms) == 1:
        return [(all_terms[0][0] if j == 0 else 1.0) * v.reshape(1, -1, 1) for j, v in enumerate(all_terms[0][1])], terms, rmax
    return sum_rank1(all_terms, n), terms, rmax


def own_entry(Y, i):
    """(entry, abs-majorant) of the TT-tensor at the multi-index i: plain left-to-right chain."""
    v, a = np.ones(1), np.ones(1)
    for G, ik in zip(Y, i):
        v, a = v @ G[:, ik, :], a @ np.abs(G[:, ik, :])
    return float(v[0]), float(a[0])


def qtt_block(Zb, q):
    """q QTT-cores of one mode (least significant bit first) -> the TT-core (r1, 2^q, r2) they denote."""
    W = np.asarray(Zb[0], dtype=float)
    for G in Zb[1:]:
        W = np.einsum('a...b,bic->a...ic', W, np.asarray(G, dtype=float))
    r1, r2 = W.shape[0], W.shape[-1]
    return W.transpose(0, *range(q, 0, -1), q + 1).reshape(r1, 2 ** q, r2)


def qtt_distance(Y, Zq, q):
    """Upper bound of max|QTT image - Y| without a dense array: tt_to_qtt works core by core, so the image is the chain of the
    blocks W_k ~ G_k, and |prod W - prod G| <= sum_k max_i||W_k[i] - G_k[i]||_F * prod_{j != k} max_i max(||W_j[i]||_F, ||G_j[i]||_F)."""
    W = [qtt_block(Zq[k * q:(k + 1) * q], q) for k in range(len(Y))]
    if any(w.shape != G.shape for w, G in zip(W, Y)):
        return None
    dk = [float(np.max(np.linalg.norm(w - G, axis=(0, 2)))) for w, G in zip(W, Y)]
    ak = [float(max(np.max(np.linalg.norm(w, axis=(0, 2))), np.max(np.linalg.norm(G, axis=(0, 2))))) for w, G in zip(W, Y)]
    return float(sum(dk[k] * math.prod(ak[j] for j in range(len(Y)) if j != k) for k in range(len(Y))))


class BigRef:
    """Reference for optima_qtt on a tensor too large for dense enumeration, extremes known by construction (duck type of `Ref`
    for check_pair / sides / info).

    The beam runs on the QTT image Zq (D = q*d binary modes).  eta = delta*sqrt(size) + 9*K*eps*prod||Zq_k||_F bounds the error of
    every computed sub-tensor norm / entry (distance of the image, in Frobenius norm over a sub-tensor, plus the normwise rounding
    bound of the module docstring).  For an image that is rank 1 up to that error a greedy step can only prefer a prefix whose
    true sub-tensor norm is within 2*eta of the best one, which costs at most 2*eta in the final modulus (max <= Frobenius norm of
    the remaining factor), D steps:  tau = 2*D*eta + 2*delta."""

    def __init__(self, Y, Zq, q, mm, Fmin, Fmax, delta):
        d, D = len(Y), len(Zq)
        self.Y, self.d, self.n, self.size = Y, d, [2 ** q] * d, 2 ** (q * d)
        self.rank1 = is_rank1(Y)
        self.K = K_of(Y)
        self.delta = delta
        nf, P = prodnorm(Zq)
        self.eta = delta * math.sqrt(float(self.size)) + 9 * K_of(Zq) * EPS * P
        self.tau = 2 * D * self.eta + 2 * delta
        self.mm, self.Fmin, self.Fmax = mm, Fmin, Fmax
        # opposite side: the formula of `Ref` on the cores of the image (used only to tell `exact` from the open finding)
        y1 = mm * (1 + 1e-9) + delta
        c2 = y1 ** (2.0 / D) if y1 > 2e-16 else 1.0
        SZ = float(math.prod(f * f + 2 * c2 for f in nf))
        KZ = 32.0 * (D + sum((G.shape[2] + 1) ** 2 for G in Zq) + 2)
        Dd = Fmax - Fmin
        self.t = 8 * KZ * EPS * SZ + 4 * delta * (Dd + self.tau + delta)
        rt = math.sqrt(self.t)
        self.tol_opp = 2 * self.tau + (rt if Dd - self.tau <= 0 else min(rt, self.t / (Dd - self.tau)))


def big_value(ctx, Y, K, i, y, what):
    ctx.check(np.ndim(y) == 0 and isinstance(y, (float, np.floating)), f"{what}: value is not a float scalar", got=repr(y))
    f, a = own_entry(Y, i)
    ctx.check(np.isfinite(y) and abs(float(y) - f) <= K * EPS * a, f"{what}: returned value is not the tensor entry at the returned index",
              got=float(y), ref=f, tol=K * EPS * a, index=list(i))
    return float(y)


def bits_of(p, q):
    return [(int(v) >> j) & 1 for v in p for j in range(q)]


def prop_qtt_big(case, ctx):
    q, d, k, kind = case["q"], case["d"], case["k"], case["kind"]
    n = [2 ** q] * d
    Y, terms, rmax = build_big(case)
    sp = case.get("spike")
    peaks = [t["p"] for t in case["terms"]] + ([sp["p"]] if sp is not None else [])
    ctx.label("big:" + kind, f"q=={q}", f"d=={d}", "fam:" + case["fam"], "k==1" if k == 1 else ("k>=size" if k >= 2 ** (q * d) else "1<k<size"))

    # the index map on its own: bit strings of the constructed positions (and of some more), the case's q and a second, longer q
    check_ind_qtt_to_tt(ctx, [bits_of(p, q) for p in peaks + case["I1"]], d, q)
    check_ind_qtt_to_tt(ctx, [bits_of(p, case["I2"]["q"]) for p in case["I2"]["rows"]], len(case["I2"]["rows"][0]), case["I2"]["q"])

    if kind == "full":
        # nothing is pruned: dense enumeration of the 2^18 entries, all claims of `run_qtt`
        run_qtt(ctx, Y, k, q, d, False, qsep=False, labels=True, diff=False)
        F = dense(Y)
        ctx.nt = bool(max(np.unravel_index(int(F.argmax()), F.shape)) >= 256 or max(np.unravel_index(int(F.argmin()), F.shape)) >= 256)
        ctx.label("optimum_index>=256" if ctx.nt else "optimum_index<256")
        return

    Y0 = [G.copy() for G in Y]
    Zq = ctx.lib(teneva.tt_to_qtt, Y, 1.E-12, 100)
    ctx.check(isinstance(Zq, list) and len(Zq) == d * q and all(G.ndim == 3 and G.shape[1] == 2 for G in Zq),
              "tt_to_qtt: not a list of d*q cores of mode size 2")
    nfY, PY = prodnorm(Y)
    cap = sum(q * (1e-12 * PY / f + 64 * math.sqrt(EPS) * PY) for f in nfY)          # a-priori bound of run_qtt
    delta = qtt_distance(Y, Zq, q)
    if delta is None or not np.isfinite(delta) or delta > cap:
        ctx.label("qtt_delta_capped")
        delta = cap
    K = K_of(Y)

    out = ctx.lib(teneva.optima_qtt, Y, k)
    ctx.check(isinstance(out, tuple) and len(out) == 4, "optima_qtt: not a 4-tuple")
    i_min, y_min, i_max, y_max = out
    a = check_index(ctx, i_min, n, "optima_qtt(i_min)")
    b = check_index(ctx, i_max, n, "optima_qtt(i_max)")
    y_min = big_value(ctx, Y, K, a, y_min, "optima_qtt(y_min)")
    y_max = big_value(ctx, Y, K, b, y_max, "optima_qtt(y_max)")
    ctx.check(y_min <= y_max, "optima_qtt: y_min > y_max", y_min=y_min, y_max=y_max)
    check_unmodified(ctx, Y, Y0)

    # "transformed into the QTT-format and then optima_tt is applied": the indices are those of the QTT search, mapped back
    jm, _, jM, _ = ctx.lib(teneva.optima_tt, Zq, k)
    ctx.check(own_ind_qtt_to_tt(jm, d, q) == list(a) and own_ind_qtt_to_tt(jM, d, q) == list(b),
              "optima_qtt: indices are not the optima_tt indices of the QTT image mapped back to TT indices",
              qtt_min=np.asarray(jm).tolist(), qtt_max=np.asarray(jM).tolist(), tt_min=list(a), tt_max=list(b), q=q)
    ctx.label("answer_index>=256" if max(a + b) >= 256 else "answer_index<256")

    if kind == "qsum":
        ctx.nt = max(a + b) >= 256                               # validity + agreement with the QTT search only (pruned beam, rank >= 2)
        return

    if kind == "dominant":
        # Y = B + amp*e_p, ||B||_F = 1, |amp| >= 3: the sub-tensor norm at every prefix / suffix of p is >= |amp| - 1 >= 2, at every
        # other partial index <= 1, so the beam keeps p in first place for every k >= 1 in both sweeps (margin |amp| - 2 against eta)
        p, amp = tuple(sp["p"]), sp["sgn"] * sp["amp"]
        ref = BigRef(Y, Zq, q, abs(own_entry(Y, p)[0]), 0.0, 0.0, delta)
        ctx.nt = max(p) >= 256
        if not ref.eta < 0.25 * (abs(amp) - 2.0):
            ctx.label("big:unconstrained(eta)")
            ctx.nt = False
            return
        got, y = (b, y_max) if amp > 0 else (a, y_min)
        ctx.check(got == p, "optima_qtt: an isolated entry that dominates the Frobenius norm of the rest of the tensor by a factor 3 is not "
                  "reported as the " + ("maximum" if amp > 0 else "minimum"), got=list(got), value=y, expected=list(p),
                  expected_value=own_entry(Y, p)[0], amp=amp, k=k, q=q, d=d, eta=ref.eta)
        return

    # kind qsep: rank-1 TT-tensor whose QTT image is rank 1 by construction -> exact for every k on the max-modulus side
    vecs = terms[0][1]
    mm = float(math.prod(float(np.max(np.abs(v))) for v in vecs))
    ends = [math.prod(c) for c in itertools.product(*[(float(v.min()), float(v.max())) for v in vecs])]
    ref = BigRef(Y, Zq, q, mm, float(min(ends)), float(max(ends)), delta)
    gap = mm * (1.0 - rmax)                                       # distance from max|Y| to the next smaller modulus
    teeth = ref.tau < 0.5 * gap
    ctx.label("big:teeth" if teeth else "big:no_teeth(tau>=gap/2)", "qtt_image_rank1" if max(G.shape[2] for G in Zq) == 1 else "qtt_image_rank1+junk")
    if case["terms"][0]["ties"]:
        ctx.label("ties")
    ctx.nt = teeth and max(case["terms"][0]["p"]) >= 256
    check_pair(ctx, ref, y_min, y_max, k, "optima_qtt", q_not_rank1=False, rank1_input=True)


# ------------------------------------------------------------------------------------------------ functional variant

@st.composite
def func_cases(draw, tier):
    d = draw(st.integers(2, 4 if tier == "quick" else 6))
    n = [draw(st.integers(1, 7)) for _ in range(d)]
    fam = draw(st.sampled_from(["gauss", "float", "smallint", "dyadic", "explicit"]))
    case = {"n": n, "fam": fam, "k": draw(st.integers(1, 5)), "k_loc": draw(st.one_of(st.none(), st.integers(1, 4))),
            "zero_tail": draw(st.integers(0, 3)) == 0}
    if fam == "explicit":
        val = st.one_of(st.integers(-3, 3).map(float), gen.reals(-4, 4))
        case["cores"] = [[draw(val) for _ in range(m)] for m in n]
    else:
        case["seed"] = draw(gen.seeds)
    if draw(st.integers(0, 2)) == 0:
        # call history: the same list object held other coefficients of the same shape at an earlier call
        case["hist"] = {"fam": draw(st.sampled_from(["gauss", "float", "smallint", "dyadic"])), "seed": draw(gen.seeds),
                        "zero_tail": draw(st.integers(0, 3)) == 0, "same_args": draw(st.booleans()),
                        "k": draw(st.integers(1, 5)), "k_loc": draw(st.one_of(st.none(), st.integers(1, 4))),
                        "ret_all": draw(st.booleans()), "mode": draw(st.sampled_from(FILL_MODES_ANY)),
                        "mask": [draw(st.integers(0, 3)) != 0 for _ in n]}
    return case


def build_func(case):
    n, fam = case["n"], case["fam"]
    if fam == "explicit":
        A = [np.array(c, dtype=float).reshape(1, -1, 1) for c in case["cores"]]
    else:
        rng = np.random.default_rng(case["seed"])
        A = []
        for m in n:
            if fam == "smallint":
                v = rng.integers(-3, 4, size=m).astype(float)
            elif fam == "dyadic":
                v = rng.integers(-16, 17, size=m) / 8.0
            elif fam == "float":
                v = rng.uniform(-4, 4, size=m)
            else:
                v = rng.normal(size=m)
            A.append(v.reshape(1, m, 1))
    if case.get("zero_tail"):
        for G in A:
            if G.shape[1] >= 3:
                G[0, -1, 0] = 0.0        # vanishing leading coefficient: degree lower than the mode size suggests
                break
    return A


def check_func(ctx, A, k, k_loc, ret_all=True):
    """optima_func_tt_beam on the rank-1 coefficient tensor A: point in the cube, maximum modulus of the interpolant attained."""
    n, d = [G.shape[1] for G in A], len(A)
    A0 = [G.copy() for G in A]
    cheb = np.polynomial.chebyshev.chebval
    fmax = [float(np.max(np.abs(cheb(GRID, G[0, :, 0])))) for G in A0]
    bound = float(math.prod(fmax))

    def value_at(x):
        return float(math.prod(float(cheb(float(x[j]), A0[j][0, :, 0])) for j in range(d)))

    x = ctx.lib(teneva.optima_func_tt_beam, A, k, k_loc)
    ctx.check(isinstance(x, np.ndarray) and x.shape == (d,) and x.dtype.kind == "f", "optima_func_tt_beam: not a float array of length d",
              got=repr(x))
    ctx.check(bool(np.all(np.isfinite(x)) and np.all(x >= -1) and np.all(x <= 1)), "optima_func_tt_beam: point outside [-1, 1]^d", x=x.tolist())
    v = value_at(x)
    ctx.check(abs(v) >= (1 - 1e-6) * bound, "optima_func_tt_beam: rank-1 coefficient tensor, the interpolant at the returned point is below "
              "its maximum modulus", x=x.tolist(), value=v, bound=bound, fmax=fmax, n=n, k=k, k_loc=k_loc)
    got = ctx.lib(teneva.func_get, x, A)
    ctx.check(abs(float(got)) >= (1 - 1e-6) * bound and abs(float(got) - v) <= 1e-9 * max(bound, abs(v)),
              "func_get at the returned point is below the maximum modulus / differs from the Chebyshev evaluation",
              func_get=float(got), value=v, bound=bound)
    if ret_all:
        X = ctx.lib(teneva.optima_func_tt_beam, A, k, k_loc, True)
        ctx.check(isinstance(X, np.ndarray) and X.ndim == 2 and X.shape[1] == d and 1 <= X.shape[0] <= k,
                  "optima_func_tt_beam(ret_all): not an array of 1..k points with d columns", got=repr(getattr(X, "shape", None)), k=k)
        ctx.check(bool(np.all(np.isfinite(X)) and np.all(X >= -1) and np.all(X <= 1)), "optima_func_tt_beam(ret_all): point outside [-1, 1]^d")
        ctx.check(np.array_equal(X[0], x), "optima_func_tt_beam: first point with ret_all differs from the single answer", a=X[0].tolist(), b=x.tolist())
    for G, G0 in zip(A, A0):
        ctx.check(np.array_equal(G, G0), "the input coefficient cores were modified")
    return bound


def prop_func(case, ctx):
    A = build_func(case)
    n, k, k_loc = case["n"], case["k"], case["k_loc"]
    ctx.label("fam:" + case["fam"], f"k=={k}", "k_loc:" + ("None" if k_loc is None else "int"))
    if 1 in n:
        ctx.label("has_mode_1")
    h = case.get("hist")
    if h:
        # the list object first holds other coefficients and is searched, then it is refilled with A (see `refill`)
        L = [G.copy() for G in build_func({"n": n, "fam": h["fam"], "seed": h["seed"], "zero_tail": h["zero_tail"]})]
        if h["same_args"]:
            check_func(ctx, L, k, k_loc, h["ret_all"])
        else:
            check_func(ctx, L, h["k"], h["k_loc"], h["ret_all"])
        mask = h["mask"] if any(h["mask"]) and h["mode"] not in ("slice", "clear_extend") else [True] * len(n)
        src = [A[j] if mask[j] else L[j].copy() for j in range(len(n))]
        A = refill(L, src, h["mode"], mask)
        ctx.label("history", "fill:" + h["mode"], "fill:all_cores" if all(mask) else "fill:some_cores")
        ctx.inner(1)
    bound = check_func(ctx, A, k, k_loc)
    if bound == 0:
        ctx.label("zero_function")
    ctx.nontrivial(sum(1 for m in n if m >= 3) >= 2 and bound > 0)


# ------------------------------------------------------------------------------------------- hidden extremum (adversarial for the beam)

@st.composite
def hidden_cases(draw, tier):
    """Nearly constant tensor c whose extreme entry `spike` sits at the crossing of two fibres of small modulus s: a pruned beam
    discards that region in both sweep directions, the second pass (on (Y - y1)^2) may then find the spike on the SAME side as y1."""
    d = draw(st.integers(3, 4))
    n = [draw(st.integers(3, 5)) for _ in range(d)]
    p = [draw(st.integers(0, k - 1)) for k in n]
    m1 = draw(st.integers(0, d - 1))
    m2 = draw(st.integers(0, d - 1).filter(lambda x: x != m1))
    sgn = draw(st.sampled_from([1, -1]))
    c = draw(st.sampled_from([3.0, 2.0, 10.0]))
    return {"n": n, "p": p, "m1": m1, "m2": m2, "c": sgn * c, "s": sgn * c * draw(st.sampled_from([0.3, 0.1, 0.5])),
            "spike": sgn * c * draw(st.sampled_from([1.7, 2.5, 1.2])), "k": draw(st.integers(1, 30)), "extra": draw(st.booleans())}


def sum_rank1(terms, n):
    """TT cores of sum_t coef_t * v_t1 (x) ... (x) v_td by block assembly (own code)."""
    d, R = len(n), len(terms)
    Y = []
    for k in range(d):
        G = np.zeros((1 if k == 0 else R, n[k], 1 if k == d - 1 else R))
        for t, (coef, vecs) in enumerate(terms):
            v = np.asarray(vecs[k], dtype=float) * (coef if k == 0 else 1.0)
            G[0 if k == 0 else t, :, 0 if k == d - 1 else t] = v
        Y.append(G)
    return Y


def prop_hidden(case, ctx):
    n, p, c, sv, spike = case["n"], case["p"], case["c"], case["s"], case["spike"]
    d = len(n)
    ones = [np.ones(k) for k in n]
    e = [np.eye(k)[p[j]] for j, k in enumerate(n)]
    fib = lambda m: [ones[j] if j == m else e[j] for j in range(d)]         # fibre along mode m through p
    terms = [(c, ones), (sv - c, fib(case["m1"])), (sv - c, fib(case["m2"])), (spike - (c + 2 * (sv - c)), e)]
    Y = sum_rank1(terms, n)
    ctx.label("hidden_spike", f"d={d}")
    ctx.nontrivial(True)
    run_tt(Y, case["k"], ctx, False, None, ret_all=False)
    if case["extra"]:
        for k in (1, 2, 3):
            run_tt(Y, k, ctx, False, None, ret_all=False)


# ------------------------------------------------------------------------------------------- long chains (many modes, any scale)

LONG_D = (30, 40, 50, 64, 80, 100, 100, 100, 120, 128, 150, 150)
LONG_X_TINY = (-303, -303, -302, -301, -300, -300, -298, -295, -292, -290, -285, -280, -270)
LONG_X_HUGE = (303, 303, 302, 300, 300, 298, 295, 290, 285, 280, 270)
LONG_X_MID = (-250, -200, -150, -140, -100, -50, 0, 50, 100, 140, 150, 200, 250)
LONG_DECADES = 303       # the drawn prefix path of decimal exponents lives in a window of this width that holds 0 and x
LONG_BITS = 1016         # generator invariant: every contiguous partial product of max|core| within 2**+-1016 (~1e+-305.8)
LONG_FAMS = ("near1", "near1", "near1", "gauss", "float", "smallint", "dyadic", "peaky", "halves", "mixed")
LONG_AMPS = (3.0, 4.0, 6.0, 10.0, 30.0, 100.0)


@st.composite
def long_cases(draw, tier):
    """TT-tensors with MANY modes (d 8..150(200), mode sizes 1..4) whose optimum is known by construction, at any representable
    scale: rank 1 (product of the per-mode extrema) or rank 1 with a short rank-2 segment holding a dominant isolated entry."""
    d = draw(st.one_of(st.sampled_from(LONG_D), st.sampled_from(LONG_D), st.integers(8, 150 if tier == "quick" else 200)))
    case = {"d": d, "kind": draw(st.sampled_from(["rank1", "rank1", "rank1", "segment"])), "fam": draw(st.sampled_from(LONG_FAMS)),
            "seed": draw(gen.seeds), "n": draw(st.sampled_from([2, 3, 3, 4])), "nvar": draw(st.booleans()),
            "ones": draw(st.integers(0, 5)) == 0, "pert": draw(st.sampled_from([7, 7, 10, 14, 20, 27])),
            "sign": draw(st.sampled_from(["pos", "pos", "mixed", "neg"])), "k": draw(st.sampled_from([1, 1, 2, 3, 5, 8, 13, 20])),
            "l2r": draw(st.booleans()),
            "calls": draw(st.sampled_from(["beam", "beam", "tt_max", "tt_max", "tt_max", "optima_tt", "optima_tt"]))}
    if case["kind"] == "segment":
        m = draw(st.integers(2, 3))
        case["seg"] = {"m": m, "n": [draw(st.integers(2, 3)) for _ in range(m)], "at": draw(st.sampled_from(["start", "mid", "mid", "end"])),
                       "amp": draw(st.sampled_from(LONG_AMPS)), "sgn": draw(st.sampled_from([-1, 1])),
                       "lay": draw(st.sampled_from(["bal", "bal", "front"]))}
    # the stabilisation exponent 2**p matters at the ends of the representable range: half of the cases live there
    x = draw(st.one_of(st.sampled_from(LONG_X_TINY), st.sampled_from(LONG_X_TINY), st.sampled_from(LONG_X_TINY), st.sampled_from(LONG_X_HUGE),
                       st.sampled_from(LONG_X_HUGE), st.sampled_from(LONG_X_MID), st.integers(-LONG_DECADES, LONG_DECADES)))
    sc = {"kind": draw(st.sampled_from(["pow10", "pow10", "pow2"])), "x": x,
          "lay": draw(st.sampled_from(["bal", "bal", "bal", "bal", "front", "back", "one", "percore", "percore", "ramp", "zigzag"]))}
    if sc["lay"] in ("one", "ramp"):
        sc["j"] = draw(st.integers(1, d - 1))
    if sc["lay"] in ("percore", "ramp", "zigzag"):
        sc["wa"] = draw(st.sampled_from([0.0, 0.5, 0.5, 1.0]))       # where the free room of the window lies (below / around / above)
        sc["t"] = draw(st.sampled_from([0.0, 0.25, 0.5, 0.75, 1.0]))  # ramp: height of the peak inside the window; zigzag: amplitude
    case["sc"] = sc
    return case


def long_vector(rng, fam, n, pert, sign):
    """One mode vector (length n, not all zero)."""
    if fam == "near1":                                   # nearly flat: every entry of the tensor is nearly a maximum
        v = 1.0 + 2.0 ** -pert * rng.uniform(-1, 1, size=n)
        if sign == "mixed":
            v = v * rng.choice([-1.0, 1.0], size=n)
        elif sign == "neg":
            v = -v
    elif fam == "gauss":
        v = rng.normal(size=n)
    elif fam == "float":
        v = rng.uniform(-4, 4, size=n)
    elif fam == "smallint":                              # ties in modulus, zeros
        v = rng.integers(-3, 4, size=n).astype(float)
    elif fam == "dyadic":
        v = rng.integers(-16, 17, size=n) / 8.0
    else:                                                # peaky: one entry dominates by 2**-3..2**-40
        v = np.ldexp(rng.uniform(0.5, 1.0, size=n), -rng.integers(3, 41, size=n)) * rng.choice([-1.0, 1.0], size=n)
        v[rng.integers(0, n)] = 1.0 if sign != "neg" else -1.0
    if not np.any(v):
        v[0] = 1.0
    return v / float(np.max(np.abs(v)))                  # max|v| = 1 exactly: the overall magnitude is carried by the scale alone


def long_path(sc, d, rng):
    """Prefix path P_0 = 0, ..., P_d = x of decimal exponents: core k is multiplied by 10**(P_{k+1} - P_k).

    Every contiguous partial product of the scale factors is 10**(P_j - P_i); the path stays inside a window of width
    LONG_DECADES that holds 0 and x, so all of them are representable (construction, not rejection)."""
    x, lay = float(sc["x"]), sc["lay"]
    room = LONG_DECADES - abs(x)
    lo = min(0.0, x) - sc.get("wa", 0.5) * room
    hi = lo + LONG_DECADES
    lin = np.linspace(0.0, x, d + 1)
    if lay == "bal":
        P = lin
    elif lay in ("front", "back", "one"):
        j = {"front": 1, "back": d}.get(lay, sc.get("j", 1))
        P = np.where(np.arange(d + 1) >= j, x, 0.0)
    elif lay == "percore":
        P = np.concatenate([[0.0], rng.integers(math.ceil(lo), math.floor(hi) + 1, size=d - 1).astype(float), [x]])
    elif lay == "ramp":
        j, h = sc["j"], lo + sc["t"] * (hi - lo)
        P = np.concatenate([np.linspace(0.0, h, j + 1), np.linspace(h, x, d - j + 1)[1:]])
    else:                                                # zigzag around the straight line, amplitude within the free room
        amp = sc["t"] * min(lin.min() - lo, hi - lin.max())
        P = lin + amp * np.where(np.arange(d + 1) % 2 == 1, 1.0, -1.0)
        P[0], P[-1] = 0.0, x
    return P


def build_long(case):
    """-> (cores, (a, b) of the rank-2 segment or None, position of the dominant entry inside the segment)."""
    d, fam = case["d"], case["fam"]
    rng = np.random.default_rng(case["seed"])
    n = [case["n"]] * d
    if case["nvar"]:
        n = [int(v) for v in rng.integers(2, case["n"] + 1, size=d)]
    if case["ones"]:
        for j in rng.integers(0, d, size=3):
            n[int(j)] = 1
    seg, pseg = None, None
    if case["kind"] == "segment":
        s = case["seg"]
        a = {"start": 0, "end": d - s["m"]}.get(s["at"], int(rng.integers(0, d - s["m"] + 1)))
        seg = (a, a + s["m"] - 1)
        n[a:a + s["m"]] = s["n"]
    first_peaky = bool(rng.integers(0, 2))
    Y = []
    for k in range(d):
        f = fam
        if fam == "halves":                              # flat half and peaky half: the best partial product does not decay evenly
            f = "peaky" if (k < d // 2) == first_peaky else "near1"
        elif fam == "mixed":
            f = ("near1", "gauss", "peaky", "smallint", "float")[int(rng.integers(0, 5))]
        Y.append(long_vector(rng, f, n[k], case["pert"], case["sign"]).reshape(1, n[k], 1))
    if seg is not None:
        # T = a_1 x ... x a_m (unit Frobenius norm) + amp * e_p, |amp| >= 3: |T[p]| >= 2 >= 2 * ||T - T[p] e_p||_F
        s, m = case["seg"], case["seg"]["m"]
        pseg = [int(rng.integers(0, q)) for q in s["n"]]
        for j in range(m):
            q = s["n"][j]
            u = rng.normal(size=q)
            u /= float(np.linalg.norm(u))
            c = (s["amp"] ** (1.0 / m)) if s["lay"] == "bal" else (s["amp"] if j == 0 else 1.0)
            if j == m - 1:
                c *= s["sgn"]
            G = np.zeros((1 if j == 0 else 2, q, 1 if j == m - 1 else 2))
            G[0, :, 0] = u
            G[-1, pseg[j], -1] = c
            Y[seg[0] + j] = G
    sc = case["sc"]
    P = long_path(sc, d, np.random.default_rng(case["seed"] + 1))
    if sc["kind"] == "pow2":
        B = np.rint(P * BITS_PER_DECADE).astype(int)
        Y = [np.ldexp(G, int(B[k + 1] - B[k])) for k, G in enumerate(Y)]
    else:
        Y = [G * 10.0 ** float(P[k + 1] - P[k]) for k, G in enumerate(Y)]
    return Y, seg, pseg


def own_get(M, e, i):
    """Entry at the multi-index i of the TT-tensor with cores M_k * 2**e_k, evaluated left to right with the binary exponent carried
    separately: (value, abs-majorant) in units of 2**E, E, and the smallest / largest exponent of the prefix products (= what
    teneva.get holds in floating point on the way)."""
    q, a, E, lo, hi = np.ones(1), np.ones(1), 0, 0, 0
    for Mk, ek, ik in zip(M, e, i):
        q, a = q @ Mk[:, ik, :], a @ np.abs(Mk[:, ik, :])
        m = float(np.max(a))
        if m == 0:
            return 0.0, 0.0, 0, lo, hi
        f = math.frexp(m)[1]
        q, a, E = np.ldexp(q, -f), np.ldexp(a, -f), E + ek + f
        lo, hi = min(lo, E), max(hi, E)
    return float(q[0]), float(a[0]), E, lo, hi


class LongRef:
    """Reference for a long chain whose max-modulus element is known by construction.

    Outside the segment the tensor is separable: |Y[i]| / max|Y| = prod_k |G_k[i_k]| / max|G_k| (one rounding per mode, no
    scale involved); the segment contributes |T[i_a..i_b]| / max|T| from its own small dense array (normalised cores).
    tol (relative): the beam compares computed partial products that carry <= 5*j relative roundings after j cores; a row that
    displaces the best one is therefore within 10*j*eps of it, over d cores <= 5*d*(d+1)*eps; taken 16*d*(d+8)*eps, plus
    9*K_seg*eps*S_T/|T[p]| for the normwise error inside the segment (there the decision margin is a factor 2)."""

    def __init__(self, Y, seg, pseg):
        self.Y, self.d, self.n, self.seg = Y, len(Y), [G.shape[1] for G in Y], seg
        self.M, self.e = normalise(Y)
        self.K = K_of(Y)
        self.rat, self.sgn = [], []
        for k, G in enumerate(self.M):
            if seg is not None and seg[0] <= k <= seg[1]:
                self.rat.append(None), self.sgn.append(None)
                continue
            v = G[0, :, 0]
            self.rat.append(np.abs(v) / float(np.max(np.abs(v))))
            self.sgn.append(np.sign(v))
        self.tol = 16.0 * self.d * (self.d + 8) * EPS
        lg = [math.log2(float(np.max(np.abs(G)))) + ek for G, ek in zip(self.M, self.e)]
        P = np.concatenate([[0.0], np.cumsum(lg)])
        self.spread = float(P.max() - P.min())               # binary exponents of all contiguous partial products of max|core|
        self.L = float(P[-1])                                # log2 of the max-modulus element (segment: up to log2 of a few)
        self.size = math.prod(self.n)
        if seg is not None:
            Ms = self.M[seg[0]:seg[1] + 1]
            self.T = dense(Ms)
            self.rseg = np.abs(self.T) / float(np.max(np.abs(self.T)))
            tp = abs(float(self.T[tuple(pseg)]))
            rest = math.sqrt(max(float(np.sum(self.T ** 2)) - tp * tp, 0.0))
            self.seg_ok = tuple(np.unravel_index(int(np.argmax(np.abs(self.T))), self.T.shape)) == tuple(pseg) and tp >= 1.9 * rest
            self.tol += 9 * K_of(Ms) * EPS * prodnorm(Ms)[1] / tp
            self.L += math.log2(tp) - sum(math.log2(float(np.max(np.abs(G)))) for G in Ms)

    def ratio(self, i):
        """|Y[i]| / max|Y|."""
        r = 1.0
        for k in range(self.d):
            if self.rat[k] is not None:
                r *= float(self.rat[k][i[k]])
        if self.seg is not None:
            r *= float(self.rseg[tuple(i[self.seg[0]:self.seg[1] + 1])])
        return r

    def slack(self):
        """Entries below 2**-1020 are subnormal inside the beam: their mutual order is not determined (in units of max|Y|)."""
        ex = -1020.0 - self.L
        return 1.0 if ex >= 0 else (2.0 ** ex if ex > -1070 else 0.0)

    def top(self, m):
        """The m largest values of |Y| / max|Y| of a separable tensor (merge mode by mode, keep m)."""
        T = np.ones(1)
        for r in self.rat:
            T = np.sort(np.outer(T, r).ravel())[::-1][:m]
        return T


def long_value(ctx, ref, i, y, what):
    """Validity: the returned value is the tensor entry at the returned index (own evaluation, exponent carried separately)."""
    ctx.check(np.ndim(y) == 0 and isinstance(y, (float, np.floating)), f"{what}: value is not a float scalar", got=repr(y))
    y = float(y)
    q, a, E, lo, hi = own_get(ref.M, ref.e, i)
    if lo < -1015 or hi > 1020:
        ctx.label("long:value_unchecked(prefix product outside the normal range)")
        return y
    try:
        ys = math.ldexp(y, -E)
    except OverflowError:
        ys = math.inf
    ctx.check(np.isfinite(y) and abs(ys - q) <= ref.K * EPS * a, f"{what}: returned value is not the tensor entry at "
              "the returned index", got=y, ref_mantissa=q, ref_exponent=E, index=list(i))
    return y


def long_best(ctx, ref, ii, what, k):
    r = ref.ratio(ii)
    ctx.check(r >= 1 - ref.tol, f"{what}: " + ("rank-1 tensor" if ref.seg is None else "rank-1 chain with a dominant isolated entry") +
              f" with d={ref.d} modes but the returned index is not a maximum-modulus element", ratio_to_maxmod=r, tol=ref.tol,
              log2_maxmod=ref.L, k=k, d=ref.d, modes_off=[j for j in range(ref.d) if ref.rat[j] is not None and ref.rat[j][ii[j]] < 1][:12])


def long_beam(ctx, Y, ref, k, l2r, ret_all):
    n, d = ref.n, ref.d
    what = f"optima_tt_beam(l2r={l2r})"
    if not ret_all:
        long_best(ctx, ref, check_index(ctx, ctx.lib(teneva.optima_tt_beam, Y, k, l2r), n, what), what, k)
        return
    I = ctx.lib(teneva.optima_tt_beam, Y, k, l2r, True)
    ctx.check(isinstance(I, np.ndarray) and I.ndim == 2 and I.shape[1] == d and I.dtype.kind in "iu" and I.shape[0] >= 1,
              f"{what}, ret_all: not a 2-D integer array with d columns", got=repr(getattr(I, "shape", None)))
    ctx.check(bool(np.all(I >= 0) and np.all(I < np.array(n)[None, :])), f"{what}, ret_all: index out of bounds")
    ctx.check(len({tuple(r) for r in I.tolist()}) == I.shape[0], f"{what}, ret_all: duplicate multi-indices")
    long_best(ctx, ref, tuple(int(v) for v in I[0]), what + ", ret_all (first row)", k)     # the single answer is the first row
    ctx.check(I.shape[0] == expected_rows(n, k, l2r), f"{what}, ret_all: unexpected number of candidates",
              rows=int(I.shape[0]), expected=expected_rows(n, k, l2r))
    if ref.seg is None:
        # separable tensor: the candidates are the entries of largest modulus, best first (see check_beam)
        vals = np.array([ref.ratio(r) for r in I.tolist()])
        sl = ref.slack()
        ctx.check(bool(np.all(vals[:-1] >= vals[1:] * (1 - 2 * ref.tol) - sl)), f"{what}, ret_all: candidates are not ordered by decreasing "
                  "modulus", ratios=vals.tolist()[:12], tol=ref.tol, slack=sl)
        best = ref.top(I.shape[0])
        ctx.check(bool(np.all(np.sort(vals)[::-1] >= best * (1 - 2 * ref.tol) - sl)), f"{what}, ret_all: candidates are not the largest moduli",
                  ratios=vals.tolist()[:12], best=best.tolist()[:12], tol=ref.tol, slack=sl, k=k)


def long_opposite(ref, s):
    """Rank-1 tensor whose max-modulus element has sign s: the extremum of the other side as (kind, log2 of modulus / max|Y|):
    the largest modulus among the entries of sign -s, else 0 if some entry vanishes, else the smallest modulus."""
    with np.errstate(all="ignore"):
        lg = [np.log2(r) for r in ref.rat]
    best = {1.0: 0.0, -1.0: -math.inf}                      # largest log-modulus of a partial product of either sign
    for l, sg in zip(lg, ref.sgn):
        new = {}
        for t in (1.0, -1.0):
            c = [best[t * u] + float(np.max(l[sg == u])) for u in (1.0, -1.0) if np.any(sg == u)]
            new[t] = max(c) if c else -math.inf
        best = new
    if best[-s] > -math.inf:
        return "sign", best[-s]
    if any(np.any(sg == 0) for sg in ref.sgn):
        return "zero", -math.inf
    return "small", float(sum(float(np.min(l)) for l in lg))


def long_optima_tt(ctx, Y, ref, k):
    n = ref.n
    out = ctx.lib(teneva.optima_tt, Y, k)
    ctx.check(isinstance(out, tuple) and len(out) == 4, "optima_tt: not a 4-tuple")
    i_min, y_min, i_max, y_max = out
    a = check_index(ctx, i_min, n, "optima_tt(i_min)")
    b = check_index(ctx, i_max, n, "optima_tt(i_max)")
    y_min = long_value(ctx, ref, a, y_min, "optima_tt(y_min)")
    y_max = long_value(ctx, ref, b, y_max, "optima_tt(y_max)")
    ctx.check(y_min <= y_max, "optima_tt: y_min > y_max", y_min=y_min, y_max=y_max)
    # one member of the pair is the answer of optima_tt_max: the max-modulus element (= the extremum of its side)
    ra, rb = ref.ratio(a), ref.ratio(b)
    big, opp, ybig = (a, b, y_min) if ra >= rb else (b, a, y_max)
    long_best(ctx, ref, big, "optima_tt (member of larger modulus)", k)
    if ref.seg is not None:
        return None
    s = 1.0 if ybig > 0 else -1.0
    kind, lt = long_opposite(ref, s)
    sg = math.prod(float(ref.sgn[j][opp[j]]) for j in range(ref.d))
    r = ref.ratio(opp)
    tl = 2 * ref.tol / math.log(2.0)
    with np.errstate(all="ignore"):
        lr = float(np.log2(r)) if r > 0 else -math.inf
    if kind == "sign":
        ok = sg == -s and lr >= lt - tl
    elif kind == "zero":
        ok = sg == 0
    else:
        ok = lr <= lt + tl and sg == s
    if not ok:
        return (f"optima_tt: rank-1, d={ref.d}, k={k} < size, max-modulus side exact, opposite side sub-optimal: log2(|y|/max|Y|) = {lr!r} "
                f"(sign {sg:+.0f}), true opposite extremum: {kind} {lt!r}")
    return None


def prop_long(case, ctx):
    Y, seg, pseg = build_long(case)
    ref = LongRef(Y, seg, pseg)
    k, d, sc = case["k"], case["d"], case["sc"]
    # generator invariants (by construction): finite cores, representable partial products, dominant entry in the segment
    assert all(np.all(np.isfinite(G)) for G in Y) and ref.spread <= LONG_BITS and abs(ref.L) <= LONG_BITS, (ref.spread, ref.L)
    assert seg is None or ref.seg_ok
    calls = case["calls"]
    do_tt = calls == "optima_tt" and ref.spread <= OPTIMA_TT_BITS
    ctx.label("long:" + case["kind"], "fam:" + case["fam"], "kind:" + sc["kind"], "lay:" + sc["lay"],
              "d:%d+" % (30 * (d // 30)), "scale:1e%+d" % (50 * int(round(ref.L / BITS_PER_DECADE / 50))),
              "k==1" if k == 1 else "k>1", "calls:" + (calls if do_tt or calls != "optima_tt" else "beam(optima_tt out of domain)"))
    if seg is not None:
        ctx.label("seg:" + case["seg"]["at"])
    ctx.nontrivial(d >= 30 and sum(1 for m in ref.n if m >= 2) >= 2)
    Y0 = [G.copy() for G in Y]
    if calls == "beam" or (calls == "optima_tt" and not do_tt):
        for l2r in (True, False):                      # both sweeps, the whole table of candidates
            long_beam(ctx, Y, ref, k, l2r, True)
    elif calls == "tt_max":
        long_beam(ctx, Y, ref, k, case["l2r"], False)  # one sweep, the single answer; then the best of both sweeps
        i, y = ctx.lib(teneva.optima_tt_max, Y, k)
        ii = check_index(ctx, i, ref.n, "optima_tt_max")
        long_value(ctx, ref, ii, y, "optima_tt_max")
        long_best(ctx, ref, ii, "optima_tt_max", k)
    known = long_optima_tt(ctx, Y, ref, k) if do_tt else None
    check_unmodified(ctx, Y, Y0)
    if known is not None:
        ctx.known("rank1-opposite-side", known)


# ------------------------------------------------------------------------------------------- storage type of the cores

@st.composite
def storage_cases(draw, tier):
    q = draw(st.sampled_from([0, 0, 1, 2]))                 # q > 0: shape [2^q]*d, optima_qtt is asked as well
    d = draw(st.integers(2, 5 if q <= 1 else 4))
    n = [2 ** q] * d if q else [draw(st.integers(1, 5)) for _ in range(d)]
    rk = draw(st.sampled_from(["rank1", "rank1", "low", "low", "some"]))
    r = [1] + [1 if rk == "rank1" else draw(st.integers(1, 3)) for _ in range(d - 1)] + [1]
    return {"n": n, "r": r, "q": q, "seed": draw(gen.seeds), "lo": draw(st.sampled_from([0, 1, 1, -3])), "hi": draw(st.sampled_from([2, 4, 9])),
            "store": draw(st.sampled_from(["int64", "int32", "first", "mixed"])), "k": draw(st.sampled_from([1, 3, 10, 100]))}


def prop_storage(case, ctx):
    """A tensor whose cores hold small integers (count tensors, 0/1 selectors), once with float64 cores and once with the same numbers in
    integer arrays (all cores / the first core / every other core): every optimum search must return the same multi-indices and values.
    What the float64 answer must be is settled by the other sub-checks."""
    n, r, d = case["n"], case["r"], len(case["n"])
    rng = np.random.default_rng(case["seed"])
    Yf = [rng.integers(case["lo"], case["hi"] + 1, size=(r[k], n[k], r[k + 1])).astype(float) for k in range(d)]
    for G in Yf:
        if not np.any(G):
            G[0, 0, 0] = 1.0
    pick = {"int64": lambda k: np.int64, "int32": lambda k: np.int32, "first": lambda k: np.int64 if k == 0 else None,
            "mixed": lambda k: np.int32 if k % 2 == 0 else None}[case["store"]]
    Yi = [G.astype(pick(k)) if pick(k) else G.copy() for k, G in enumerate(Yf)]
    keep = [G.copy() for G in Yi]
    ctx.label("stored_as:" + case["store"], "rank1" if max(r) == 1 else "rank>=2", f"q={case['q']}", f"k={case['k']}")
    ctx.nontrivial(d >= 3 or max(r) >= 2)

    def flat(x):
        if isinstance(x, (tuple, list)):
            return [flat(v) for v in x]
        if isinstance(x, np.ndarray):
            return x.tolist()
        return x.item() if hasattr(x, "item") else x

    calls = [("optima_tt", lambda Y: teneva.optima_tt(Y, case["k"])), ("optima_tt_max", lambda Y: teneva.optima_tt_max(Y, case["k"])),
             ("optima_tt_beam", lambda Y: teneva.optima_tt_beam(Y, case["k"])), ("optima_tt_beam(l2r=False)", lambda Y: teneva.optima_tt_beam(Y, case["k"], False))]
    if case["q"]:
        calls.append(("optima_qtt", lambda Y: teneva.optima_qtt(Y, case["k"])))
    with np.errstate(all="ignore"):
        for what, fn in calls:
            a, b = flat(ctx.lib(fn, Yi)), flat(ctx.lib(fn, Yf))
            ctx.check(a == b, f"{what}: the answer for integer-stored cores differs from that for the float64 copy of the same cores",
                      stored=a, float64=b, store=case["store"], shape=n, ranks=r)
            ctx.inner(1)
    ctx.check(all(np.array_equal(a, b) and a.dtype == b.dtype for a, b in zip(Yi, keep)), "optimum search changed the (integer-stored) cores it was given")


SUBCHECKS = [
    Sub("qtt_big", prop_qtt_big, strategy=qtt_big_cases, quick=40, thorough=300),
    Sub("long", prop_long, strategy=long_cases, quick=24, thorough=500),
    Sub("hidden", prop_hidden, strategy=hidden_cases, quick=40, thorough=600),
    Sub("tt", prop_tt, strategy=tt_cases, quick=100, thorough=1500),
    Sub("rank1", prop_tt, strategy=rank1_cases, quick=120, thorough=2000),
    Sub("spike", prop_spike, strategy=spike_cases, quick=60, thorough=1000),
    Sub("scaled", prop_scaled, strategy=scaled_cases, quick=100, thorough=1500),
    Sub("history", prop_history, strategy=history_cases, quick=60, thorough=1000),
    Sub("small", prop_small, enumerate=small_cases, exhaustive=True),
    Sub("qtt", prop_qtt, strategy=qtt_cases, quick=80, thorough=1200),
    Sub("qtt_shapes", prop_qtt_shapes, strategy=qtt_shape_cases, quick=40, thorough=400),
    Sub("func", prop_func, strategy=func_cases, quick=100, thorough=1500),
    Sub("storage", prop_storage, strategy=storage_cases, quick=60, thorough=800),
]
