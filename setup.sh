#!/bin/bash
# setup_cmd: offline. Makes sure hypothesis and jsonschema are importable for the checks.
# Nothing is fetched: wheels come from /opt/veriftools/wheels; packages land in /verif/.deps.
set -u
cd "$(dirname "$0")"
PY=/venv/bin/python
DEPS="$PWD/.deps"
mkdir -p "$DEPS"
need=""
PYTHONPATH="$DEPS" $PY -c "import hypothesis" 2>/dev/null || need="$need hypothesis"
PYTHONPATH="$DEPS" $PY -c "import jsonschema" 2>/dev/null || need="$need jsonschema"
if [ -n "$need" ]; then
  PIP_NO_INDEX=1 $PY -m pip install --quiet --no-index --find-links /opt/veriftools/wheels \
      --target "$DEPS" $need || echo "setup: pip install of [$need] failed (checks fall back to the built-in evidence validator)"
fi
PYTHONPATH="$DEPS" $PY - <<'PY'
import sys
sys.path.insert(0, "/repo")
import numpy, scipy, hypothesis, teneva
print("setup ok: numpy", numpy.__version__, "scipy", scipy.__version__, "hypothesis", hypothesis.__version__, "teneva", teneva.__version__)
PY
